#!/bin/sh
# Build the checker against /repo's current working tree, then run one check.
#   ./run.sh --build-only | ./run.sh <property-id> <quick|thorough> | ./run.sh replay <file>
export GOFLAGS=-mod=mod GOPROXY=off GOSUMDB=off GOTOOLCHAIN=local
cd "$(dirname "$0")" || exit 2
mkdir -p bin evidence replays
if ! go build -o bin/vcheck ./cmd/vcheck 2>bin/build.log; then
  echo "HARNESS-ERROR: cannot build the checker against /repo:" >&2
  cat bin/build.log >&2
  exit 2
fi
case "$1" in
  --build-only) exit 0 ;;
  replay) exec bin/vcheck replay "$2" ;;
  *) exec bin/vcheck run "$1" "${2:-${VERIF_TIER:-quick}}" ;;
esac
