#!/bin/sh
# Build the checker against /repo's current working tree, then run one check.
#   ./run.sh --build-only | ./run.sh <property-id> <quick|thorough> | ./run.sh replay <file>
export GOFLAGS=-mod=mod GOPROXY=off GOSUMDB=off GOTOOLCHAIN=local
cd "$(dirname "$0")" || exit 2
mkdir -p bin evidence replays
if ! go build -o bin/vcheck ./cmd/vcheck 2>bin/build.log; then
  echo "HARNESS-ERROR: cannot build the checker against /repo:" >&2
  cat bin/build.log >&2
  exit 2
fi
build_inst() {
  # instrumented binary for C01: clock reads and map ranges of /repo's consensus paths go through verifhook
  rm -rf .work/overlay && mkdir -p .work/overlay
  go run ./cmd/instrument /repo "$PWD/.work/overlay" "$PWD/hook/hook.go.txt" >bin/instrument.log 2>&1 &&
  go build -overlay .work/overlay/overlay.json -o bin/vcheck-inst ./cmd/vcheck 2>>bin/build.log
}
case "$1" in
  --build-only) build_inst || { echo "HARNESS-ERROR: cannot build the instrumented checker:" >&2; cat bin/instrument.log bin/build.log >&2; exit 2; }; exit 0 ;;
  C01) build_inst || { echo "HARNESS-ERROR: cannot build the instrumented checker:" >&2; cat bin/instrument.log bin/build.log >&2; exit 2; }
       exec bin/vcheck run "$1" "${2:-${VERIF_TIER:-quick}}" ;;
  replay) exec bin/vcheck replay "$2" ;;
  *) exec bin/vcheck run "$1" "${2:-${VERIF_TIER:-quick}}" ;;
esac
