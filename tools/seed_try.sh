#!/bin/sh
# Runs checks against a seeded change WITHOUT touching /repo, so that several changes can be tried in
# parallel: a scratch worktree of /repo HEAD gets the patch, a scratch copy of /verif is bound to it
# (go.mod replace + run.sh path), the checks run there, both are removed afterwards.
#   seed_try.sh <seed-id> <patch> <tier> <check-id>...
# (The sequential, official form — apply to /repo, run /verif, undo — is tools/seed_run.sh.)
export GOFLAGS=-mod=mod GOPROXY=off GOSUMDB=off GOTOOLCHAIN=local
id=$1; patch=$(readlink -f $2); tier=$3; shift 3
wt=/tmp/vt-$id; vv=/tmp/vv-$id
git -C /repo worktree remove --force $wt 2>/dev/null; rm -rf $vv
git -C /repo worktree add --detach $wt HEAD -q || exit 2
git -C $wt apply $patch || { echo "PATCH DOES NOT APPLY"; git -C /repo worktree remove --force $wt; exit 2; }
mkdir -p $vv
(cd /verif && tar cf - --exclude=./bin --exclude=./.work --exclude=./replays --exclude=./evidence --exclude=./seeded --exclude=./.git .) | (cd $vv && tar xf -)
sed -i "s#=> /repo#=> $wt#" $vv/go.mod
sed -i "s#cmd/instrument /repo#cmd/instrument $wt#" $vv/run.sh
export VERIF_DIR=$vv
for c in "$@"; do
  echo "=== $id: $c $tier"
  s=$(date +%s)
  $vv/run.sh $c $tier > $vv/out-$c.log 2>&1; rc=$?
  egrep "^VIOLATION|^KNOWN|^OK|^FOREIGN|HARNESS|^  [a-z]|^panic|^goroutine 1|UNCONFIRMED|CONFORMANCE" $vv/out-$c.log | cut -c1-600 | head -14; [ $rc -ge 2 ] && tail -15 $vv/out-$c.log | cut -c1-300
  echo "    rc=$rc wall=$(( $(date +%s)-s ))s"
  # keep a record next to the seeded change: which state of /verif, which check, verdict, first reported discrepancy
  what=$(grep -A2 -m1 "^VIOLATION" $vv/out-$c.log | sed -n 3p | cut -c1-220)
  [ -d /verif/seeded/$id ] && echo "$(git -C /verif rev-parse --short HEAD)$(git -C /verif diff --quiet -- . ':!seeded' ':!DESIGN.md' || echo +dirty) $c $tier rc=$rc $what" >> /verif/seeded/$id/tries.log
done
git -C /repo worktree remove --force $wt; rm -rf $vv
