#!/usr/bin/env python3
# Rewrites the table of DESIGN.md section 8 from the evidence files (numbers are never typed by hand).
import json, re

DESC = {
 "C01": ("determinism alphabet in 3 twin processes + GoLevelDB twin; crash enumeration with long-running twin", "twins depth 2, crash depth 1", "twins depth 3 (4 processes), crash depth 2"),
 "C02": ("`union-supply`, `supply-orders` + supply/event oracle", "depth 4 / 5", "depth 6 / 8 (12 + 8 min)"),
 "C03": ("`po-3of3-min2` (5 gov changes, 3 decide&gov, 1 rolled-back proposal, upper-case re-decisions, the in-place upgrade), `po-same-block` (all ordered pairs of decisions / whitelist changes in one block), `po-1of1`, `po-out-of-order`, `po-decided-then-gov`", "depth 5 / 3 / 4 / 4 / 3", "depth 6 / 5 / 6 / 6 / 5 (12 + 8 + 5 + 5 + 5 min)"),
 "C04": ("`efund` (prefix of 12 blocks locks eFUND for 4 payer classes and sets up fee grants), `supply-orders`, `efund-last` (one holder of all locked eFUND)", "depth 3 after prefix / 5 / 4", "depth 5 / 7 / 8 (15 + 6 + 5 min)"),
 "C05": ("`efund`, `efund-last`", "depth 3 after prefix / 4", "depth 5 / 8 (15 + 5 min)"),
 "C06": ("4 base states x sequences <= 3 (<= 2 for the stale-schedule states, in re-check mode and with a self fee granter) x wrapping x offered amounts x extra denom x mode through `CheckTx`", "len <= 3", "len <= 4 (15 min)"),
 "C07": ("`anchor-records` (heights next/gap/equal/1/max, hash sizes 66/67, non-owners, lowered max, 3 records per block, second chain)", "depth 4", "depth 8 (15 min)"),
 "C08": ("`anchor-retention` (purchases 0..2^64-1, nested, two-in-one, simulated, rolled back, gov of limits, 3 records per block, second chain), `anchor-same-block` (all ordered pairs of records / purchases in one block)", "depth 4 after grant / 3", "depth 8 / 5 (15 + 6 min)"),
 "C09": ("`anchor-identity` (3 registrants, field sizes in bytes incl. multi-byte characters, empty optional fields, upper-case owner, every (signer,id), simulated and rolled-back registrations)", "depth 3", "depth 6 (15 min)"),
 "C10": ("`streams` (3 pairs + a 32-byte receiver, 2 denoms, fee changes incl. rolled back, simulated claim, escrow sends, escrow as receiver), `streams-same-block` (all ordered pairs on one stream)", "depth 4 / 3", "depth 7 / 5 (15 + 6 min)"),
 "C11": ("`timing-small` (sub-second steps, two operations per block, fee 0 and 1), `timing-extreme` (317 y, 2^62/s, jumps to Z-1 s / Z), `timing-same-block` + grid", "depth 4 / 4 / 3", "depth 6 / 7 / 5 (10 + 6 + 6 min)"),
 "C12": ("`stranded` (10^21, 2^63, 2^100 deposits; claim/cancel/top-up around Z; 4 fee rates; blocked receivers in both spellings; a sender topping up with all it holds) + grid", "depth 4", "depth 6 (12 min)"),
 "C13": ("6 base histories x (18 message types x 7 named x 6 keys + 24 nested parameter updates + 14 types forged with 2 fee granters and behind 2 genuine registrations + 14 types in amino-JSON mode as signed and with every field altered after signing), every transition on a fresh node", "depth 1", "depth 2, all pairs (4 min each)"),
 "C14": ("`union-halt`, `union-halt-gov-order`, `orders-in-flight` (two signers, an order followed from its first accept to minting, incl. through the in-place upgrade), `po-decided-then-gov`, `union-atomic` (3-msg txs failing at every k, by error and by panic, rolled-back whitelisting)", "depth 3 / 3 / 4 / 3 / 3", "depth 5 / 5 / 7 / 5 / 5 (10 + 8 + 8 + 5 + 8 min)"),
 "C15": ("`union-genesis`, `genesis-rich` (38-block prefix), `genesis-many` (105 entities per kind), `genesis-last-efund`, `genesis-efund` + export/import/continuation visitor on every state", "depth 2 / 2 / 1 / 2 / 1", "depth 4 / 4 / 2 / 4 / 2, two-step continuation (10 + 10 + 5 + 5 + 5 min)"),
 "C16": ("grid + `params-live` (<= 2 real governance updates out of 20 valid / invalid / rolled back, the in-place upgrade, both anchoring modules incl. nested purchases, fee probe in both modes)", "depth 4", "depth 6 (15 min)"),
 "C17": ("`efund` with 6 denominations and `efund-last` + supply-query visitor (forward and reverse paging, escrow balance as the truth for locked eFUND)", "depth 3 / 4", "depth 5 / 7 (12 + 4 min)"),
 "C18": ("key grid + keeper round trips + listings vs point reads + genesis-import write path", "complete", "same"),
 "C19": ("conversion grid", "complete", "same"),
 "C20": ("`lists` (prefix of 27 blocks builds 5 orders in all statuses, 4+4 registrations, 7 streams incl. 32- and 8-byte receivers) + list-query visitor (forward and reverse)", "depth 2", "depth 4 (15 min)"),
}

def fmt(n):
    return f"{n:,}".replace(",", " ")

rows = ["| id | scenario(s) | quick bound | quick measured (states / transitions / wall) | thorough bound (budget) |", "|---|---|---|---|---|"]
total = 0.0
for i in range(1, 21):
    c = "C%02d" % i
    e = json.load(open(f"/verif/evidence/{c}.json"))
    cov = e["coverage"]
    total += e["wall_s"]
    letters = "/".join(str(len(s.get("alphabet", []))) for s in cov.get("scenarios", []))
    if cov.get("scenarios"):
        m = f"{fmt(cov['states'])} / {fmt(cov['transitions'])} / {e['wall_s']:.0f} s ({letters} letters)"
    else:
        m = f"{fmt(cov['evaluations'])} evaluations / {e['wall_s']:.1f} s"
    extra = []
    for k, lab in (("crash_edges", "crash edges"), ("crash_points", "crash points"), ("goleveldb_replays", "goleveldb replays"), ("admitted", "admitted"), ("export_import_round_trips", "round trips"), ("differential_continuation_steps", "continuation steps"), ("list_query_sweeps", "page walks")):
        if k in cov:
            extra.append(f"{fmt(cov[k])} {lab}")
    if extra:
        m += "; " + ", ".join(extra)
    d = DESC[c]
    rows.append(f"| {c} | {d[0]} | {d[1]} | {m} | {d[2]} |")
rows.append("")
rows.append(f"The whole quick suite took {total/60:.0f} min of wall clock on 16 idle cores (sum of the runs above, builds not included).")
table = "\n".join(rows) + "\n\n"
# last validation of the thorough tier (thorough_validation.tsv is written by hand from the logs of those runs)
import os
if os.path.exists("/verif/thorough_validation.tsv"):
    t = ["Last validation of the thorough tier on the unchanged tree (all exit 0; four checks at a time on the 16 cores and",
         "with `VERIF_MEM_CAP_MB=3072`, so each got about a quarter of the machine - alone, a run gets deeper within the same budget):", "",
         "| id | states | transitions | evaluations | wall |", "|---|---|---|---|---|"]
    for l in open("/verif/thorough_validation.tsv"):
        f = l.rstrip("\n").split("\t")
        if len(f) < 6:
            continue
        num = lambda x: fmt(int(x)) if x.isdigit() else "-"
        t.append(f"| {f[0]} | {num(f[2])} | {num(f[3])} | {num(f[4])} | {f[5].replace('wall=', '').replace('s', ' s')} |")
    table += "\n".join(t) + "\n\n"

p = "/verif/DESIGN.md"
s = open(p).read()
a = s.index("| id | scenario(s)")
b = s.index("Per-property notes (alphabets are listed")
s = s[:a] + table + s[b:]
s = re.sub(r"Peak memory of the quick runs:[^\n]*\n\n", "", s)
open(p, "w").write(s)
print("section 8 table rewritten; quick suite total %.0f s" % total)
