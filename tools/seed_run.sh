#!/bin/sh
# Runs checks of /verif against /repo with a seeded change applied, and undoes it straight afterwards:
#   seed_run.sh <patch> <tier> <check-id>...
patch=$1; tier=$2; shift 2
[ -z "$(git -C /repo status --porcelain)" ] || { echo "/repo is not clean"; exit 2; }
git -C /repo apply $patch || exit 2
for c in "$@"; do
  echo "=== $c $tier"
  /verif/run.sh $c $tier 2>&1 | egrep "^VIOLATION|^KNOWN|^OK|HARNESS|^  [a-z]" | cut -c1-400 | head -12
done
git -C /repo checkout -- .
git -C /repo status --porcelain
