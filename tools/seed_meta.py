#!/usr/bin/env python3
# Writes /verif/seeded/<id>/meta.json and /verif/seeded/RESULTS.md from: the table below (what each seeded
# change is and what it needs in order to manifest - taken from the sub-agent's NOTES.md), the log of the
# independent confirmation (seeded/<id>/verify.log, written by tools/seed_verify.sh) and the log of
# check runs against the change (seeded/<id>/tries.log, appended by tools/seed_try.sh / seed_run.sh).
import json, os, re, subprocess

SEEDS = {
 "C01a": ("C01", "x/wrkchain keeper memoises decoded Params in process memory (atomic pointer)", "a node restart between two WRKChain transactions (cold cache pays the gas-metered store read, warm cache does not); also a SetParams in a discarded context poisons the cache"),
 "C01b": ("C01", "BEACON ante checkBeaconMaxSlots looks up the purchasable maximum while ranging over a map, returning early", "a rejected transaction buying storage for two different BEACON ids, one over its maximum: gas_used depends on map iteration order"),
 "C02a": ("C02", "ProcessAcceptedPurchaseOrders batches mints per purchaser but lists the purchaser once per order", "two orders of the same purchaser completing in the same block"),
 "C02b": ("C02", "MintCoinsAndLock increments the locked record first and then mints the record's amount", "a purchaser that still holds locked eFUND completes another order"),
 "C03a": ("C03", "stale-order test compares len(decisions) instead of the number of accepts with MinAccepts", ">=3 signers, MinAccepts>=2, one accept plus one reject, then the decision time limit passes"),
 "C03b": ("C03", "already-decided guard compares only the last recorded decision's signer", "signer A decides, signer B decides, signer A decides again on the same raised order"),
 "C04a": ("C04", "UnlockCoinsForFees decrements the total locked by the whole fee when locked < fee", "payer with 0 < locked < fee <= liquid + locked, and another account holding locked eFUND"),
 "C04b": ("C04", "ProcessAcceptedPurchaseOrders skips the mint for a purchaser no longer whitelisted, after storing the order as completed", "purchaser removed from the whitelist between acceptance and completion"),
 "C05a": ("C05", "UnlockCoinsForFees subtracts the whole fee set (all denominations) to choose its branch", "fee with a second denomination, payer holds it, locked > fee: all locked eFUND is unlocked"),
 "C05b": ("C05", "unlock decorator split into one block per module, each unlocking the whole fee", "one transaction with a WRKChain and a BEACON message, payer with locked eFUND"),
 "C06a": ("C06", "both fee decorators skip the fee check when ctx.IsReCheckTx()", "CheckTx in re-check mode (after a commit), wrong fee"),
 "C06b": ("C06", "WRKChain fee sum counts only the last storage-purchase message", "a transaction with two or more WRKChain storage purchases"),
 "C07a": ("C07", "QuickCheckHeightIsNew computes last+1 (wraps at 2^64-1)", "a record at height 2^64-1, then any further record"),
 "C07b": ("C07", "BEACON ExportGenesis keeps firstInState across beacons", "export with a pruned BEACON followed by a registered-but-empty one, import, then records on the second"),
 "C08a": ("C08", "WRKChain record is stored after the prune step", "in-state limit 1 (default_storage_limit = 1 set by governance)"),
 "C08b": ("C08", "BEACON purchase check msg.Number > max - limit (underflows)", "governance lowers max below an existing limit, then a purchase nested in authz MsgExec"),
 "C09a": ("C09", "GetBeaconOwner memoised in a keeper-level sync.Map", "registration + owner lookup inside a failed (rolled back) transaction, then another account registers and gets the same id"),
 "C09b": ("C09", "IterateWrkChains decodes every entry into one reused struct", "a WRKChain with empty name / genesis hash listed after one that has them (registry listing, export)"),
 "C10a": ("C10", "validator fee transfer nested inside the receiver-amount > 0 guard", "validator fee rate exactly 1.00 set by governance, then any release"),
 "C10b": ("C10", "stream module account removed from the blocked addresses", "a bank send aimed at the stream escrow account"),
 "C11a": ("C11", "SetNewFlowRate writes back the stream copy loaded before the settling claim", "update of the flow rate >= 1 s after the last release, then a release before the new zero time"),
 "C11b": ("C11", "expiry decided in whole seconds", "a release strictly inside the last second before the deposit-zero time (sub-second block times)"),
 "C12a": ("C12", "streamed amount computed as an int64 product", "flow rate x elapsed whole seconds >= 2^63 before expiry (18-decimal token amounts)"),
 "C12b": ("C12", "deferred telemetry gauge with Deposit.Amount.Int64() in TopUpDeposit", "top-up leaving a deposit above 2^63-1"),
 "C13a": ("C13", "enterprise signer list cached on the keeper, reset through a value receiver", "an authorisation check, then governance replaces the signers, then the removed signer acts"),
 "C13b": ("C13", "IsAuthorisedToRecord memoises the BEACON owner per id", "registration + record inside a failed transaction, then another account registers the same id"),
 "C14a": ("C14", "ProcessAcceptedPurchaseOrders panics unless accepts >= current MinAccepts", "governance raises MinAccepts in the block in which the order was accepted"),
 "C14b": ("C14", "whitelist lookups cached in process memory", "a failing multi-message transaction that whitelists X and then looks X up"),
 "C15a": ("C15", "InitGenesis re-queues accepted orders only if CompletionTime == 0", "export while an order is accepted but not yet minted"),
 "C15b": ("C15", "stream InitGenesis skips streams with zero deposit", "export with a stream that was claimed down to zero"),
 "C16a": ("C16", "enterprise signer entries validated after TrimSpace", "parameter update whose signer list carries white space around an entry"),
 "C16b": ("C16", "WRKChain fee check skipped on ReCheckTx", "fee parameter changed while a transaction waits in the mempool, then re-check"),
 "C17a": ("C17", "TotalSupply result starts from the native coin and appends the page", "several denominations and a page that does not contain the native one"),
 "C17b": ("C17", "SupplyOf lower-cases the requested denomination", "a denomination with upper-case characters (IBC voucher)"),
 "C18a": ("C18", "AddressesFromStreamKey reuses the receiver's length for the sender", "sender and receiver addresses of different lengths"),
 "C18b": ("C18", "WRKChain block iteration over [key(id,0), key(id,2^64-1)) instead of the prefix", "a block recorded at height 2^64-1, then a listing or export"),
 "C19a": ("C19", "int64 fast path for whole FUND amounts", "whole amount between 9223372037 and 2^63-1 FUND"),
 "C19b": ("C19", "exact path multiplies by big.Rat.SetFloat64(1e-9)", "nund -> FUND for amounts above ~8.03e15 nund"),
 "C20a": ("C20", "purchase-order pagination callback counts out-of-window entries as hits without filtering", "filter + offset paging (or count_total) with non-matching orders interleaved"),
 "C20b": ("C20", "AddressesFromStreamKey skips the sender's own length byte", "a stream whose sender and receiver differ in address length (32-byte receiver)"),
 # ---- second round (told to stay away from the central function of the property)
 "C01c": ("C01", "enterprise params cached on the keeper, refreshed in SetParams", "a governance proposal whose params update is rolled back at execution, then a restart of one node: the restarted node reads the store, the other the cache"),
 "C01d": ("C01", "WRKChain ante checkWrkChainMaxSlots looks up the maximum while ranging over a map", "a rejected transaction buying storage for two WRKChain ids, one over its maximum"),
 "C02c": ("C02", "mints batched per purchaser, the amount added to a range copy", "two orders of one purchaser completing in the same block: only the first is minted"),
 "C02d": ("C02", "MintCoinsAndLock skips the mint for vesting accounts", "the purchaser of a completing order is a vesting account"),
 "C03c": ("C03", "decoded signer list cached on the enterprise keeper, refreshed in SetParams", "a proposal changing the signers that is rolled back at execution"),
 "C03d": ("C03", "tally counts only decisions of signers authorised at tally time", "signer set changes between two decisions on one order"),
 "C04c": ("C04", "whitelist check after the order has been stored as completed", "purchaser leaves the whitelist before the completing block (same idea as C04b)"),
 "C04d": ("C04", "total locked cached per block height outside the store", "a transaction rejected in the ante chain after its unlock, then a paying one, in the same block"),
 "C05c": ("C05", "the unlock decorator unlocks the fee granter's eFUND instead of the payer's", "fee granter that holds locked eFUND"),
 "C05d": ("C05", "UnlockCoinsForFees subtracts the whole fee set to choose its branch", "fee with a second denomination (same idea as C05a)"),
 "C06c": ("C06", "BEACON fee parameters cached on the keeper, written by SetParams", "a fee-changing proposal rolled back at execution: the ante check enforces fees that never came into force"),
 "C06d": ("C06", "CheckIsWrkChainTx classifies a transaction by its first message", "a non-WRKChain message before the WRKChain message, wrong fee"),
 "C07c": ("C07", "BEACON ExportGenesis keeps firstInState across beacons", "same idea as C07b"),
 "C07d": ("C07", "WRKChain pruning clamps the chain's limit to the current maximum parameter", "governance lowers the maximum below a limit a chain already holds, then records"),
 "C08c": ("C08", "WRKChain in-state limit cached in a keeper map", "a purchase that is only simulated, or rolled back with its transaction"),
 "C08d": ("C08", "BEACON InitGenesis clamps the imported limit to the maximum", "limit above a maximum that governance lowered later, then export/import"),
 "C09c": ("C09", "BEACON export lists registrations through a getter capped at 100", "more than 100 registered BEACONs, export/import"),
 "C09d": ("C09", "WRKChain owner memoised in a keeper-level map", "registration + record in a rolled-back transaction, then another registrant gets the id"),
 "C10c": ("C10", "stream params cached on the keeper, refreshed in SetParams", "a fee-changing proposal rolled back at execution: releases are split at the rate that never came into force"),
 "C10d": ("C10", "top-up within the last second before the zero time treated as expired, deposit set to zero + top-up", "sub-second block time, top-up in the last second with an unclaimed remainder"),
 "C11c": ("C11", "ClaimFromStream returns early when the claim is zero, without recording the outflow time", "flow-rate change less than a second after the last release, then a claim"),
 "C11d": ("C11", "CalculateDuration uses Quo (rounds half-even at 18 decimals) instead of QuoTruncate", "flow rate above 2e18/s and a deposit a few units short of a multiple of it"),
 "C12c": ("C12", "AddressesFromStreamKey reads the sender with the receiver's length", "a 32-byte sender (no key can sign for it in the harness), export/import"),
 "C12d": ("C12", "top-up of an expired stream rebuilds the stream without its Cancellable flag", "create, expire without full claim, top up, cancel"),
 "C13c": ("C13", "BEACON owner memoised in a keeper map", "same idea as C09a / C13b"),
 "C13d": ("C13", "the WRKChain fee decorator overwrites the simulate flag it passes on", "a WRKChain transaction delivered in a block with the wrong key: signature checks are skipped"),
 "C14c": ("C14", "gov module account no longer exempt from the blocked addresses", "an order raised by the governance account is accepted: the mint to it panics in BeginBlock"),
 "C14d": ("C14", "decoded signer list cached, refreshed in SetParams", "a multi-message proposal whose params update is rolled back"),
 "C15c": ("C15", "stream ExportGenesis skips streams with zero deposit", "an emptied stream at export time"),
 "C15d": ("C15", "SetWrkChainStorageLimit enforces the current maximum (InitGenesis panics on the error)", "a limit above a maximum lowered later, export/import"),
 "C16c": ("C16", "WRKChain fee check skipped on ReCheckTx", "same idea as C06a / C16b"),
 "C16d": ("C16", "stream InitGenesis replaces a validator fee of exactly 0 by the default", "governance sets the fee to 0, export/import"),
 "C17c": ("C17", "total locked decremented by the whole fee when locked < fee", "same idea as C04a: the books break, the supply figures follow the broken counter"),
 "C17d": ("C17", "TotalSupply builds a new PageRequest without the key", "key-based paging over more denominations than fit a page"),
 "C18c": ("C18", "IterateWrkChains decodes every entry into one reused struct", "same idea as C09b"),
 "C18d": ("C18", "BEACON genesis import writes all timestamps through one reused key buffer", "import of a BEACON with two or more timestamps"),
 "C19c": ("C19", "nund -> FUND multiplies by SetFloat64(1e-9)", "same idea as C19b"),
 "C19d": ("C19", "uint64 fast path for whole FUND amounts", "whole amount between 18446744074 and 2^64-1 FUND"),
 "C20c": ("C20", "AddressesFromStreamKey slices the sender with the receiver's length", "same idea as C18a / C20b"),
 "C20d": ("C20", "count-only fast path taken when status or purchaser is unset (should be and)", "exactly one filter set, offset paging or count_total"),
 # ---- third round (given the list of ideas already used; asked for orderings, sequences, cooperating edits)
 "C01e": ("C01", "BEACON ante max-slots lookups while ranging over a map", "same idea as C01b"),
 "C01f": ("C01", "purchase-order counter incremented in place in the slice returned by store.Get", "a transaction that raises an order and then fails: the increment stays in the store's caches of the running process, a restarted node hands out another id"),
 "C02e": ("C02", "the coin minted is the purchaser's new total locked amount", "same idea as C02b"),
 "C02f": ("C02", "batched mint per purchaser, purchaser appended once per order", "same idea as C02a"),
 "C03e": ("C03", "reject branch additionally requires accepts < MinAccepts", "mixed decisions, then the signer set shrinks so that both thresholds are met: the order is accepted instead of rejected"),
 "C03f": ("C03", "accepted order of a purchaser that left the whitelist is set to rejected", "whitelist removal before the minting block: accepted -> rejected"),
 "C04e": ("C04", "total locked decremented by the whole fee when locked < fee", "same idea as C04a"),
 "C04f": ("C04", "per-purchaser mint batching with a value-copy bug", "two orders of one purchaser completing in one block: only the first is minted and locked"),
 "C05e": ("C05", "branch test replaced by IsAllGTE over the whole fee set", "same idea as C05a"),
 "C05f": ("C05", "one unlock decorator instance per module in the ante chain", "same idea as C05b (two cooperating files)"),
 "C06e": ("C06", "CheckIsWrkChainTx true only if every message is a WRKChain message", "a WRKChain message mixed with an unrelated one: admitted with any fee"),
 "C06f": ("C06", "BEACON purchase slots collected per beacon id, overwriting duplicates", "two purchases for the same BEACON in one transaction"),
 "C07e": ("C07", "lowest height in state recomputed over the module-wide iterator", "two WRKChains, the higher id prunes twice: it deletes a record inside its retention limit"),
 "C07f": ("C07", "BEACON export lists timestamps newest first", "export/import of a BEACON with two or more timestamps, then records past the limit"),
 "C08e": ("C08", "WRKChain record stored after the prune step", "same idea as C08a"),
 "C08f": ("C08", "BEACON purchase check msg.Number > max - limit", "same idea as C08b"),
 "C09e": ("C09", "BEACON owner stored in the spelling of the message", "owner spelled in upper case (legal bech32): the BEACON disappears from its owner's listing"),
 "C09f": ("C09", "name / moniker limits counted in characters at both validation sites", "multi-byte characters: 128 two-byte characters are accepted as a 256-byte name"),
 "C10e": ("C10", "ClaimFromStream returns early when the receiver amount is zero, after the fee left escrow", "validator fee exactly 1.0, then any release"),
 "C10f": ("C10", "MsgCreateStream replaces an expired stream", "create, expire with deposit unclaimed, create again: the old deposit is orphaned in escrow"),
 "C11e": ("C11", "early return on an empty claim skips the outflow-time write", "same idea as C11c"),
 "C11f": ("C11", "SetNewFlowRate writes back the stale copy", "same idea as C11a"),
 "C12e": ("C12", "top-up of an expired stream drops the Cancellable flag", "same idea as C12d"),
 "C12f": ("C12", "blocked-receiver check looks the message string up in a map", "a blocked module account as receiver in upper-case spelling: every later release fails, the deposit is stranded"),
 "C13e": ("C13", "the unlock decorator returns without calling next after a successful unlock", "fee payer with locked eFUND: signature, sequence and fee deduction are skipped, any key can sign"),
 "C13f": ("C13", "enterprise params authority check moved from the message server into the ante handler", "MsgUpdateParams nested in an authz MsgExec whose grantee names itself as authority"),
 "C02g": ("C02", "the eFUND unlock decorator returns success without calling next after a successful unlock (signature verification skipped)", "a WRKChain/BEACON message in the transaction and a fee payer with locked eFUND: forged decisions are recorded and the order is minted"),
 "C02h": ("C02", "the already-decided scan compares addresses but breaks at the first decision of somebody else", "another signer decided first, then the same signer accepts twice"),
 "C03g": ("C03", "enterprise begin blocker ordered in front of the upgrade module's", "the upgrade block of the in-place upgrade: orders are tallied against zero-value parameters"),
 "C03h": ("C03", "MsgProcessUndPurchaseOrder.GetSignBytes omits the decision", "amino-JSON sign mode: a signed reject is delivered as an accept"),
 "C06g": ("C06", "WRKChain and BEACON fee decorators dispatched either/or", "a transaction mixing both modules offering only the WRKChain sum"),
 "C06h": ("C06", "fee decorators return to next before the exact-fee check when a fee granter is named", "a fee granter with an allowance and any amount offered"),
 "C07g": ("C07", "BEACON ExportGenesis exports the last registered id as the starting id", "export / import with a BEACON registered, then a further registration overwrites it"),
 "C07h": ("C07", "record guard 'is this height recorded' instead of 'is this height new'", "a height below the last one that has no record in state"),
 "C09g": ("C09", "BEACON keeper constructed on the WRKChain store key", "both modules used on one chain"),
 "C09h": ("C09", "WRKChain ExportGenesis carries the starting id only when nothing is registered", "export / import with a WRKChain registered, then a further registration"),
 "C10g": ("C10", "stream escrow account taken off the bank block-list", "a bank send to the escrow / a stream whose receiver is the escrow"),
 "C10h": ("C10", "stream ExportGenesis forgets the module params", "validator fee changed by governance, export / import, a release"),
 "C13g": ("C13", "same idea as C02g (another author): unlock decorator ends the ante chain", "fee payer with locked eFUND, any WRKChain/BEACON message, wrong key"),
 "C13h": ("C13", "WRKChain fee decorator returns success without next when a fee granter is named", "a forged WRKChain transaction naming any fee granter"),
 "C14g": ("C14", "gov module account left on the bank block-list (delete by module name on a map keyed by address)", "an accepted purchase order of the gov account: BeginBlock panics"),
 "C14h": ("C14", "telemetry gauge narrows the total locked eFUND to int64 in the begin blocker", "total locked above 2^63-1"),
 "C01i": ("C01", "WRKChain ante max-slot look-ups inside a map range with early return", "same idea as C01d (another author)"),
 "C01j": ("C01", "purchase-order counter overwritten in place in the slice returned by store.Get", "same idea as C01f (another author)"),
 "C04i": ("C04", "decrementLockedUnd stores the SafeSub result found via Coins.Find (a zero remainder is 'not found', the record keeps its old value)", "a fee that uses up all of the payer's locked eFUND"),
 "C04j": ("C04", "minting merged per purchaser through a range copy (merged amounts are lost)", "two orders of one purchaser accepted in the same block"),
 "C05i": ("C05", "a log-only 'remaining fee' computation writes into the transaction's own fee slice", "locked < fee <= locked + liquid through the real ante chain: the fee collector receives fee - locked"),
 "C05j": ("C05", "result of Coin.Add discarded when an existing spent tally is updated", "the same payer pays two fees from locked eFUND"),
 "C08i": ("C08", "BEACON purchase guard msg.Number > max - limit", "same idea as C08b / C16e (another author)"),
 "C08j": ("C08", "the new record is written in a defer, after pruning has looked for the new lowest height", "an in-state limit of exactly 1 and two records"),
 "C11i": ("C11", "`stream, ok :=` shadows the refreshed stream in SetNewFlowRate: the pre-claim deposit and last outflow time are written back", "a rate change after time has passed, then any release"),
 "C11j": ("C11", "expiry test of a top-up compares Unix seconds", "a top-up in the same second as, but before, the deposit-zero time"),
 "C12i": ("C12", "telemetry gauge narrows the claimed amount to int64", "one release above 2^63-1 base units"),
 "C12j": ("C12", "claim returns before the store write when the receiver share is zero", "validator fee exactly 1.0 (same idea as C10e / W5b)"),
 "C15i": ("C15", "BEACON export fills one shared pre-allocated window for every BEACON", "two BEACONs holding timestamps at export time"),
 "C15j": ("C15", "import cross-check compares the summed locked entries with sdk.Coins{total} (zero coin vs empty coins)", "every locked record is zero (all eFUND spent)"),
 "C16i": ("C16", "decision time limit converted to time.Duration nanoseconds", "a limit above about 292 years: every open order is rejected as stale"),
 "C16j": ("C16", "`err :=` shadows the result in validateEntSigners", "any malformed signer entry is accepted"),
 "C17i": ("C17", "native denomination located on the page with sort.Search without checking the hit", "a page without the native denomination but with one that sorts after it"),
 "C17j": ("C17", "total locked stored via Coins.Find on the SafeSub result", "the chain-wide total drops to exactly zero"),
 "C18i": ("C18", "stream key parser strips the store prefix with bytes.TrimLeft", "a receiver address of exactly 17 bytes (0x11)"),
 "C18j": ("C18", "WRKChain export reverses the record list into its own backing array", "a WRKChain with two or more records at export time"),
 "C20i": ("C20", "WRKChain list callback returns a hit for entries outside the page before filtering", "same idea as the fourth-round listing change (offset continuation of a filtered list)"),
 "C20j": ("C20", "status filter switch has no case for ACCEPTED", "list filtered by ACCEPTED in the one block between tally and minting"),
 "C02k": ("C02", "an order of a purchaser that left the whitelist is dropped from the accepted queue after its status was already set to completed: completed, never minted", "whitelist removal between raise and the minting block"),
 "C02l": ("C02", "tally counts decisions through one map for the whole queue; the reset is skipped by the `continue` of the reject branches", "a rejected or expired order carrying an accept next to an open order with some accepts"),
 "C03k": ("C03", "tally skips orders with fewer decisions than MinAccepts", "high quorum (2 MinAccepts > signers + 1): the decisive rejection arrives early and the order stays raised"),
 "C03l": ("C03", "accepted queue iterated from a resume cursor (last drained id + 1)", "a higher-id order completes before a lower-id one is accepted: the latter stays accepted forever"),
 "C04k": ("C04", "one mint per purchaser per block; Coin.Add result discarded when merging", "two orders of one purchaser accepted in the same block (same idea as C04j)"),
 "C04l": ("C04", "decrementLockedUnd deletes a record that reaches zero and returns before updating the total", "a fee that uses a payer's locked eFUND to the last nund"),
 "C07k": ("C07", "WRKChain registration idempotent per owner and moniker: the entry is refreshed with zeroed counters", "the owner registers the same moniker again, then re-records old heights"),
 "C07l": ("C07", "BEACON record swallows a submission equal to the last one (hash and submit time)", "two consecutive identical submissions: success is reported, nothing is stored, identifiers shift"),
 "C08k": ("C08", "the new record is written after pruning", "an in-state limit of exactly 1 (same idea as C08j)"),
 "C08l": ("C08", "BEACON purchase guard msg.Number > max - limit", "same idea as C08b / C08i"),
 "C10k": ("C10", "claim returns before the store write when the receiver share is zero", "validator fee exactly 1.0 (same idea as C10e / C12j)"),
 "C10l": ("C10", "duplicate check of create replaced by 'is the stream live' (zero time in the future)", "a create over a stream that ran dry with unclaimed deposit: the old deposit is orphaned in the escrow"),
 "C11k": ("C11", "duration computed with Quo (rounds half-even at 18 decimals) before truncation", "rates above 2*10^18/s and a deposit of k*rate - 1: the zero time is one second late and the deposit cannot sustain the rate"),
 "C11l": ("C11", "rate change skips the settlement when less than a second has passed since the last outflow", "a sub-second gap, then a claim at the next whole second"),
 "C12k": ("C12", "top-up refused unless spendable > amount", "a top-up of exactly the sender's whole balance"),
 "C12l": ("C12", "top-up of an expired stream rebuilds the stream struct and forgets Cancellable", "top-up after the zero time with deposit left, then cancel is refused for good"),
 "C14k": ("C14", "tally checks accepts first and falls through into the reject check", "signer set shrunk by governance so that old decisions satisfy both: accepted then rejected, next BeginBlock panics"),
 "C14l": ("C14", "mint helper refuses module accounts", "the governance account as purchaser (same idea as C14g)"),
 "C15k": ("C15", "both unlock branches share a helper that decrements the total by the whole fee", "locked < fee <= locked + liquid while others hold locked eFUND: total < escrow, the export no longer imports"),
 "C15l": ("C15", "SetBeaconStorageLimit refuses limits above the current maximum", "purchase, maximum lowered by governance, export / import panics"),
 "C01m": ("C01", "WRKChain ante max-slot look-ups inside a map range with early return", "same idea as C01d / C01i (a third author)"),
 "C01n": ("C01", "a submit time ahead of the node's clock is replaced by time.Now()", "a BEACON record with a submit time in the future: the stored value depends on when the node executes the block"),
 "C05m": ("C05", "the unlock decorator unlocks the owner of the first WRKChain/BEACON message instead of the fee payer", "a transaction whose fee payer is not the owner (mixed messages with two signers, or an explicit fee payer)"),
 "C05n": ("C05", "branch decision of the unlock subtracts the whole fee coin set", "a fee carrying a second denomination: all locked eFUND is unlocked while only the fee is deducted"),
 "C06m": ("C06", "BEACON purchases collected per BEACON id in a map (the last one wins)", "two purchases for the same BEACON in one transaction (same idea as C06b)"),
 "C06n": ("C06", "CheckIsWrkChainTx returns false at the first message of another module", "a WRKChain message after an unrelated message: admitted with any fee"),
 "C09m": ("C09", "BEACON registration idempotent per owner, moniker and name", "the same owner registers identical content twice: the old identifier is returned"),
 "C09n": ("C09", "an empty WRKChain base type is stored as \"other\"", "a registration with an empty base type"),
 "C13m": ("C13", "signer lookup through a store index rebuilt in SetParams from the params read after the write", "a signer removed by governance keeps deciding and whitelisting"),
 "C13n": ("C13", "exact resubmission of a recorded WRKChain block answered with success before the owner check", "a non-owner resubmits (id, height, hash) of an existing record and is told it succeeded"),
 "C16m": ("C16", "signer validation skips blank entries while MinAccepts is still checked against the raw split", "signers \"s1,s2,\" with min_accepts 3 is accepted"),
 "C16n": ("C16", "WRKChain purchase ValidateBasic caps the number at the compile-time default maximum", "maximum raised by governance above 600000, then a purchase above 600000 within the new maximum"),
 "C17m": ("C17", "fee > locked branch decrements the total by the whole fee", "same idea as C15k (another author)"),
 "C17n": ("C17", "paginated total supply skips the locked adjustment when the page key sorts after the native denomination", "reverse key-based paging from a key above the native denomination"),
 "C20m": ("C20", "purchase-order list counts out-of-page entries as hits when no status filter is set (forgets the purchaser filter)", "purchaser filter, offset continuation or count_total"),
 "C20n": ("C20", "per-sender stream list served from a sender index written by create only", "streams imported from genesis are missing from the per-sender list"),
 "C14e": ("C14", "accepted order of a de-whitelisted purchaser set to rejected but left in the accepted queue", "whitelist removal before minting: BeginBlock panics from the next block on"),
 "C14f": ("C14", "decisions admitted on accepted orders + decision handler re-queues the order as raised (two files)", "a second signer decides in the one block between acceptance and minting: BeginBlock panics"),
 "C15e": ("C15", "enterprise InitGenesis adds imported spent records onto existing ones (the module is initialised twice by the app)", "an account with spent eFUND, import through the real InitChain"),
 "C15f": ("C15", "stream InitGenesis recomputes the deposit-zero time", "a stream topped up while flowing whose deposit and top-up are not multiples of the rate"),
 "C16e": ("C16", "BEACON purchase check msg.Number > max - limit", "same idea as C08b"),
 "C16f": ("C16", "signer entries validated after TrimSpace", "same idea as C16a"),
 "C17e": ("C17", "total locked decremented by the whole fee", "same idea as C04a / C17c"),
 "C17f": ("C17", "incrementLockedUnd adds the purchaser's whole new balance to the total", "a further order of a purchaser that still holds locked eFUND"),
 "C18e": ("C18", "AllStreamsForSender keeps keys that end with the length-prefixed sender", "a longer sender address whose tail is 0x14 + another sender"),
 "C18f": ("C18", "block iteration over the module-wide prefix", "same idea as C07e"),
 "C20e": ("C20", "BeaconsFiltered count-only shortcut that ignores the moniker filter", "moniker filter without owner filter, offset paging"),
 "C20f": ("C20", "purchaser filter overwrites the status filter result", "both filters set, purchaser with orders in several states"),
 # ---- fourth round ("wildcard": all twenty properties given, each agent pointed at one cross-cutting area)
 "W1a": ("C10", "stream escrow account removed from the blocked addresses (app wiring)", "same idea as C10b; a stream towards the escrow itself is accepted as well"),
 "W1b": ("C06", "both fee decorators are skipped whenever the fee-granter field is set", "fee granter = the payer itself (legal without an allowance): any fee is admitted"),
 "W2a": ("C05", "the unlock decorator uses the first message signer instead of the fee payer", "a co-signed transaction with an explicit fee payer different from the owner, one of them holding locked eFUND"),
 "W2b": ("C01", "BEACON ante max-slots lookups inside a map range", "same idea as C01b"),
 "W3a": ("C16", "signer entries validated after TrimSpace", "same idea as C16a"),
 "W3b": ("C20", "WrkChainsFiltered counts out-of-page entries as hits before filtering", "owner/moniker filter with offset paging or count_total"),
 "W4a": ("C15", "BEACON export lists timestamps newest first", "same idea as C07f"),
 "W4b": ("C03", "reject branch additionally requires accepts < MinAccepts", "same idea as C03e"),
 "W5a": ("C11", "SetNewFlowRate writes back the stale copy", "same idea as C11a"),
 "W5b": ("C10", "ClaimFromStream returns before the store write when the receiver share is zero", "validator fee exactly 1.0 (same idea as C10e)"),
 "W6a": ("C01", "WRKChain ante max-slots lookups inside a map range", "same idea as C01d"),
 "W6b": ("C05", "the unlock decorator uses GetSigners()[0]", "same idea as W2a"),
}


root = "/verif/seeded"
rows = []
for sid, (prop, what, needs) in sorted(SEEDS.items()):
    d = os.path.join(root, sid)
    if not os.path.isdir(d):
        continue
    v = open(os.path.join(d, "verify.log")).read() if os.path.exists(os.path.join(d, "verify.log")) else ""
    builds = "BUILD FAILS" not in v and "PATCH DOES NOT APPLY" not in v and v != ""
    m = re.search(r"== existing tests with the change\n(.*?)\(end of non-ok lines\)", v, re.S)
    suite_ok = bool(m) and m.group(1).strip() == ""
    with_change = v.split("== demo with the change")[1].split("== demo without")[0] if "== demo with the change" in v else ""
    without = v.split("== demo without the change")[1] if "== demo without the change" in v else ""
    demo_fails = "FAIL" in with_change
    demo_passes = re.search(r"^ok\s", without, re.M) is not None and "FAIL" not in without
    tries = []
    tl = os.path.join(d, "tries.log")
    if os.path.exists(tl):
        for line in open(tl):
            p = line.rstrip("\n").split(" ", 4)
            if len(p) >= 4:
                tries.append({"verif_commit": p[0], "check": p[1], "tier": p[2], "exit": int(p[3].split("=")[1]), "first_discrepancy": p[4] if len(p) > 4 else ""})
    latest = {}
    for t in tries:
        latest[t["check"]] = t
    caught = sorted(c for c, t in latest.items() if t["exit"] == 1)
    demo = [f for f in os.listdir(d) if f.endswith("_test.go")]
    meta = {"id": sid, "breaks_property": prop, "change": what, "needs_to_manifest": needs,
            "files": {"patch": "patch.diff", "demonstration": demo, "notes": "NOTES.md"},
            "confirmed_by_me": {"how": "tools/seed_verify.sh in a fresh scratch worktree of /repo HEAD: git apply, go build ./..., the repository's own tests with the change, the demonstration with and without the change", "builds": builds, "existing_tests_pass_with_change": suite_ok, "demonstration_fails_with_change": demo_fails, "demonstration_passes_without": demo_passes},
            "checks_run": tries, "caught_by": caught}
    json.dump(meta, open(os.path.join(d, "meta.json"), "w"), indent=1)
    rows.append((sid, prop, what, needs, builds and suite_ok and demo_fails and demo_passes, latest))

with open(os.path.join(root, "RESULTS.md"), "w") as f:
    f.write("# Seeded changes and which checks catch them\n\nEach change was written by a sub-agent that saw only the property text and a scratch worktree; it compiles, passes the repository's 672 tests and comes with a demonstration that fails with it and passes without (confirmed independently, column *ok*). Column *latest runs* gives, per check that was run against the change, the exit code of the most recent run (1 = VIOLATION reported, 0 = not caught, 2 = harness refused to give a verdict) and the commit of /verif that ran. History of all runs: `<id>/tries.log`.\n\n")
    f.write("| id | property | change | needs | ok | latest runs |\n|---|---|---|---|---|---|\n")
    for sid, prop, what, needs, ok, latest in rows:
        lr = "; ".join(f"{c}: exit {t['exit']} @{t['verif_commit']}" for c, t in sorted(latest.items()))
        f.write(f"| {sid} | {prop} | {what} | {needs} | {'yes' if ok else 'NO'} | {lr} |\n")
print("wrote", len(rows), "entries")
