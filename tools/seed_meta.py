#!/usr/bin/env python3
# Writes /verif/seeded/<id>/meta.json and /verif/seeded/RESULTS.md from: the table below (what each seeded
# change is and what it needs in order to manifest - taken from the sub-agent's NOTES.md), the log of the
# independent confirmation (seeded/<id>/verify.log, written by tools/seed_verify.sh) and the log of
# check runs against the change (seeded/<id>/tries.log, appended by tools/seed_try.sh / seed_run.sh).
import json, os, re, subprocess

SEEDS = {
 "C01a": ("C01", "x/wrkchain keeper memoises decoded Params in process memory (atomic pointer)", "a node restart between two WRKChain transactions (cold cache pays the gas-metered store read, warm cache does not); also a SetParams in a discarded context poisons the cache"),
 "C01b": ("C01", "BEACON ante checkBeaconMaxSlots looks up the purchasable maximum while ranging over a map, returning early", "a rejected transaction buying storage for two different BEACON ids, one over its maximum: gas_used depends on map iteration order"),
 "C02a": ("C02", "ProcessAcceptedPurchaseOrders batches mints per purchaser but lists the purchaser once per order", "two orders of the same purchaser completing in the same block"),
 "C02b": ("C02", "MintCoinsAndLock increments the locked record first and then mints the record's amount", "a purchaser that still holds locked eFUND completes another order"),
 "C03a": ("C03", "stale-order test compares len(decisions) instead of the number of accepts with MinAccepts", ">=3 signers, MinAccepts>=2, one accept plus one reject, then the decision time limit passes"),
 "C03b": ("C03", "already-decided guard compares only the last recorded decision's signer", "signer A decides, signer B decides, signer A decides again on the same raised order"),
 "C04a": ("C04", "UnlockCoinsForFees decrements the total locked by the whole fee when locked < fee", "payer with 0 < locked < fee <= liquid + locked, and another account holding locked eFUND"),
 "C04b": ("C04", "ProcessAcceptedPurchaseOrders skips the mint for a purchaser no longer whitelisted, after storing the order as completed", "purchaser removed from the whitelist between acceptance and completion"),
 "C05a": ("C05", "UnlockCoinsForFees subtracts the whole fee set (all denominations) to choose its branch", "fee with a second denomination, payer holds it, locked > fee: all locked eFUND is unlocked"),
 "C05b": ("C05", "unlock decorator split into one block per module, each unlocking the whole fee", "one transaction with a WRKChain and a BEACON message, payer with locked eFUND"),
 "C06a": ("C06", "both fee decorators skip the fee check when ctx.IsReCheckTx()", "CheckTx in re-check mode (after a commit), wrong fee"),
 "C06b": ("C06", "WRKChain fee sum counts only the last storage-purchase message", "a transaction with two or more WRKChain storage purchases"),
 "C07a": ("C07", "QuickCheckHeightIsNew computes last+1 (wraps at 2^64-1)", "a record at height 2^64-1, then any further record"),
 "C07b": ("C07", "BEACON ExportGenesis keeps firstInState across beacons", "export with a pruned BEACON followed by a registered-but-empty one, import, then records on the second"),
 "C08a": ("C08", "WRKChain record is stored after the prune step", "in-state limit 1 (default_storage_limit = 1 set by governance)"),
 "C08b": ("C08", "BEACON purchase check msg.Number > max - limit (underflows)", "governance lowers max below an existing limit, then a purchase nested in authz MsgExec"),
 "C09a": ("C09", "GetBeaconOwner memoised in a keeper-level sync.Map", "registration + owner lookup inside a failed (rolled back) transaction, then another account registers and gets the same id"),
 "C09b": ("C09", "IterateWrkChains decodes every entry into one reused struct", "a WRKChain with empty name / genesis hash listed after one that has them (registry listing, export)"),
 "C10a": ("C10", "validator fee transfer nested inside the receiver-amount > 0 guard", "validator fee rate exactly 1.00 set by governance, then any release"),
 "C10b": ("C10", "stream module account removed from the blocked addresses", "a bank send aimed at the stream escrow account"),
 "C11a": ("C11", "SetNewFlowRate writes back the stream copy loaded before the settling claim", "update of the flow rate >= 1 s after the last release, then a release before the new zero time"),
 "C11b": ("C11", "expiry decided in whole seconds", "a release strictly inside the last second before the deposit-zero time (sub-second block times)"),
 "C12a": ("C12", "streamed amount computed as an int64 product", "flow rate x elapsed whole seconds >= 2^63 before expiry (18-decimal token amounts)"),
 "C12b": ("C12", "deferred telemetry gauge with Deposit.Amount.Int64() in TopUpDeposit", "top-up leaving a deposit above 2^63-1"),
 "C13a": ("C13", "enterprise signer list cached on the keeper, reset through a value receiver", "an authorisation check, then governance replaces the signers, then the removed signer acts"),
 "C13b": ("C13", "IsAuthorisedToRecord memoises the BEACON owner per id", "registration + record inside a failed transaction, then another account registers the same id"),
 "C14a": ("C14", "ProcessAcceptedPurchaseOrders panics unless accepts >= current MinAccepts", "governance raises MinAccepts in the block in which the order was accepted"),
 "C14b": ("C14", "whitelist lookups cached in process memory", "a failing multi-message transaction that whitelists X and then looks X up"),
 "C15a": ("C15", "InitGenesis re-queues accepted orders only if CompletionTime == 0", "export while an order is accepted but not yet minted"),
 "C15b": ("C15", "stream InitGenesis skips streams with zero deposit", "export with a stream that was claimed down to zero"),
 "C16a": ("C16", "enterprise signer entries validated after TrimSpace", "parameter update whose signer list carries white space around an entry"),
 "C16b": ("C16", "WRKChain fee check skipped on ReCheckTx", "fee parameter changed while a transaction waits in the mempool, then re-check"),
 "C17a": ("C17", "TotalSupply result starts from the native coin and appends the page", "several denominations and a page that does not contain the native one"),
 "C17b": ("C17", "SupplyOf lower-cases the requested denomination", "a denomination with upper-case characters (IBC voucher)"),
 "C18a": ("C18", "AddressesFromStreamKey reuses the receiver's length for the sender", "sender and receiver addresses of different lengths"),
 "C18b": ("C18", "WRKChain block iteration over [key(id,0), key(id,2^64-1)) instead of the prefix", "a block recorded at height 2^64-1, then a listing or export"),
 "C19a": ("C19", "int64 fast path for whole FUND amounts", "whole amount between 9223372037 and 2^63-1 FUND"),
 "C19b": ("C19", "exact path multiplies by big.Rat.SetFloat64(1e-9)", "nund -> FUND for amounts above ~8.03e15 nund"),
 "C20a": ("C20", "purchase-order pagination callback counts out-of-window entries as hits without filtering", "filter + offset paging (or count_total) with non-matching orders interleaved"),
 "C20b": ("C20", "AddressesFromStreamKey skips the sender's own length byte", "a stream whose sender and receiver differ in address length (32-byte receiver)"),
}

root = "/verif/seeded"
rows = []
for sid, (prop, what, needs) in sorted(SEEDS.items()):
    d = os.path.join(root, sid)
    if not os.path.isdir(d):
        continue
    v = open(os.path.join(d, "verify.log")).read() if os.path.exists(os.path.join(d, "verify.log")) else ""
    builds = "BUILD FAILS" not in v and "PATCH DOES NOT APPLY" not in v and v != ""
    m = re.search(r"== existing tests with the change\n(.*?)\(end of non-ok lines\)", v, re.S)
    suite_ok = bool(m) and m.group(1).strip() == ""
    with_change = v.split("== demo with the change")[1].split("== demo without")[0] if "== demo with the change" in v else ""
    without = v.split("== demo without the change")[1] if "== demo without the change" in v else ""
    demo_fails = "FAIL" in with_change
    demo_passes = re.search(r"^ok\s", without, re.M) is not None and "FAIL" not in without
    tries = []
    tl = os.path.join(d, "tries.log")
    if os.path.exists(tl):
        for line in open(tl):
            p = line.rstrip("\n").split(" ", 4)
            if len(p) >= 4:
                tries.append({"verif_commit": p[0], "check": p[1], "tier": p[2], "exit": int(p[3].split("=")[1]), "first_discrepancy": p[4] if len(p) > 4 else ""})
    latest = {}
    for t in tries:
        latest[t["check"]] = t
    caught = sorted(c for c, t in latest.items() if t["exit"] == 1)
    demo = [f for f in os.listdir(d) if f.endswith("_test.go")]
    meta = {"id": sid, "breaks_property": prop, "change": what, "needs_to_manifest": needs,
            "files": {"patch": "patch.diff", "demonstration": demo, "notes": "NOTES.md"},
            "confirmed_by_me": {"how": "tools/seed_verify.sh in a fresh scratch worktree of /repo HEAD: git apply, go build ./..., the repository's own tests with the change, the demonstration with and without the change", "builds": builds, "existing_tests_pass_with_change": suite_ok, "demonstration_fails_with_change": demo_fails, "demonstration_passes_without": demo_passes},
            "checks_run": tries, "caught_by": caught}
    json.dump(meta, open(os.path.join(d, "meta.json"), "w"), indent=1)
    rows.append((sid, prop, what, needs, builds and suite_ok and demo_fails and demo_passes, latest))

with open(os.path.join(root, "RESULTS.md"), "w") as f:
    f.write("# Seeded changes and which checks catch them\n\nEach change was written by a sub-agent that saw only the property text and a scratch worktree; it compiles, passes the repository's 672 tests and comes with a demonstration that fails with it and passes without (confirmed independently, column *ok*). Column *latest runs* gives, per check that was run against the change, the exit code of the most recent run (1 = VIOLATION reported, 0 = not caught, 2 = harness refused to give a verdict) and the commit of /verif that ran. History of all runs: `<id>/tries.log`.\n\n")
    f.write("| id | property | change | needs | ok | latest runs |\n|---|---|---|---|---|---|\n")
    for sid, prop, what, needs, ok, latest in rows:
        lr = "; ".join(f"{c}: exit {t['exit']} @{t['verif_commit']}" for c, t in sorted(latest.items()))
        f.write(f"| {sid} | {prop} | {what} | {needs} | {'yes' if ok else 'NO'} | {lr} |\n")
print("wrote", len(rows), "entries")
