#!/bin/sh
# Independent confirmation of a seeded change in a fresh scratch worktree:
#   seed_verify.sh <id> <seed-dir> <demo-file> <demo-dest-dir-relative> <go test run pattern> [pkg]
# (a) applies patch.diff to a fresh checkout of /repo HEAD, (b) builds, (c) runs the existing tests of
# the repository with the change, (d) runs the demonstration with the change (must fail) and
# (e) without it (must pass). Removes the worktree afterwards.
set -u
export GOFLAGS=-mod=mod GOPROXY=off GOSUMDB=off GOTOOLCHAIN=local
id=$1; seed=$2; demo=$3; dest=$4; pat=$5; pkg=${6:-./$dest/}
wt=/tmp/vd-$id
git -C /repo worktree remove --force $wt 2>/dev/null
git -C /repo worktree add --detach $wt HEAD -q || exit 2
cd $wt || exit 2
git apply $seed/patch.diff || { echo "PATCH DOES NOT APPLY"; exit 2; }
echo "== build"; go build ./... || { echo "BUILD FAILS"; exit 1; }
echo "== existing tests with the change"
go test -count=1 ./x/... ./app/... ./ante/... ./types/... ./cmd/... 2>&1 | grep -v "no test files" | grep -v "^ok" | head -20
echo "(end of non-ok lines)"
cp $seed/$demo $dest/ || exit 2
echo "== demo with the change (expected: FAIL)"
go test -count=1 -run "$pat" $pkg 2>&1 | tail -5
echo "== demo without the change (expected: ok)"
git apply -R $seed/patch.diff
go test -count=1 -run "$pat" $pkg 2>&1 | tail -3
cd /; git -C /repo worktree remove --force $wt
