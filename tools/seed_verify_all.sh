#!/bin/sh
# seed_verify_all.sh [id...] : runs tools/seed_verify.sh for the listed (default: all unverified) entries of seeded/index.tsv
cd /verif/seeded
while IFS="$(printf '\t')" read -r id demo dest pat; do
  [ -n "$id" ] || continue
  if [ $# -gt 0 ]; then case " $* " in *" $id "*) ;; *) continue;; esac; elif [ -f $id/verify.log ]; then continue; fi
  /verif/tools/seed_verify.sh $id /verif/seeded/$id $demo $dest "$pat" > $id/verify.log 2>&1 < /dev/null
  echo "$id: $(grep -c '^FAIL\|^--- FAIL' $id/verify.log) fail-lines"
done < index.tsv
