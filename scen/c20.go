package scen

import (
	"bytes"
	"fmt"
	"time"

	sdk "github.com/cosmos/cosmos-sdk/types"
	"github.com/cosmos/cosmos-sdk/types/query"
	"github.com/cosmos/gogoproto/proto"

	beacontypes "github.com/unification-com/mainchain/x/beacon/types"
	enttypes "github.com/unification-com/mainchain/x/enterprise/types"
	streamtypes "github.com/unification-com/mainchain/x/stream/types"
	wrkchaintypes "github.com/unification-com/mainchain/x/wrkchain/types"

	"verif/mc"
	"verif/model"
)

func protoEq(a, b proto.Message) bool {
	x, _ := proto.Marshal(a)
	y, _ := proto.Marshal(b)
	return bytes.Equal(x, y)
}

// listSweep runs one list query with every page limit 1..n+1, key- and offset-based, with and
// without count_total, and compares the concatenation with want (in order).
func listSweep[T any](add func(string, ...any), tag string, n int, want []T, eq func(a, b T) bool, fetch func(pr *query.PageRequest) ([]T, *query.PageResponse, error)) int {
	evals := 0
	for limit := uint64(1); limit <= uint64(n)+1; limit++ {
		for _, mode := range []string{"key", "offset"} {
			for ci, ct := range []bool{false, true, false} {
				// third round: the same walk in reverse order, for the smallest, the second and the largest page size
				rev := ci == 2
				if rev && limit != 1 && limit != 2 && limit != uint64(n)+1 {
					continue
				}
				evals++
				walk := pageAll[T]
				if rev {
					walk = pageAllRev[T]
				}
				got, total, _, err := walk(fetch, limit, mode, ct)
				t := fmt.Sprintf("%s limit=%d %s count_total=%v reverse=%v", tag, limit, mode, ct, rev)
				if err != nil {
					add("%s failed: %v", t, err)
					continue
				}
				if len(got) != len(want) {
					add("%s returned %d items, %d stored items match the filter", t, len(got), len(want))
					continue
				}
				for i := range got {
					if !eq(got[i], want[i]) {
						add("%s item %d is %v, expected %v (complete, duplicate-free, ascending)", t, i, got[i], want[i])
						break
					}
				}
				if ct && total != uint64(len(want)) {
					add("%s reports total %d, expected %d", t, total, len(want))
				}
			}
		}
	}
	// a client may change the page size between pages: first page of a items, the rest in pages of b, following
	// next_key, in both directions
	for _, a := range []uint64{1, 2, 3} {
		for _, b := range []uint64{1, 2, uint64(n) + 1} {
			for _, rev := range []bool{false, true} {
				if a == b {
					continue
				}
				evals++
				t := fmt.Sprintf("%s first page limit=%d then limit=%d key reverse=%v", tag, a, b, rev)
				var got []T
				pr := &query.PageRequest{Limit: a, Reverse: rev}
				var err error
				for guard := 0; guard < 10000; guard++ {
					var its []T
					var resp *query.PageResponse
					its, resp, err = fetch(pr)
					if err != nil {
						break
					}
					got = append(got, its...)
					if resp == nil || len(resp.NextKey) == 0 {
						break
					}
					pr = &query.PageRequest{Key: resp.NextKey, Limit: b, Reverse: rev}
				}
				if err != nil {
					add("%s failed: %v", t, err)
					continue
				}
				if rev {
					for i, j := 0, len(got)-1; i < j; i, j = i+1, j-1 {
						got[i], got[j] = got[j], got[i]
					}
				}
				if len(got) != len(want) {
					add("%s returned %d items, %d stored items match the filter", t, len(got), len(want))
					continue
				}
				for i := range got {
					if !eq(got[i], want[i]) {
						add("%s item %d is %v, expected %v (complete, duplicate-free, ascending)", t, i, got[i], want[i])
						break
					}
				}
			}
		}
	}
	return evals
}

// listQueries is the C20 oracle on one committed state.
func listQueries(e *Exec) []Disc {
	var out []Disc
	add := func(f string, a ...any) { out = append(out, disc("listquery", f, a...)) }
	w := e.W
	ctx := w.Ctx()
	before := StoresDump(w)
	evals := 0

	// ---- purchase orders
	orders := w.App.EnterpriseKeeper.GetAllPurchaseOrders(ctx)
	purch := map[string]bool{"": true, w.Bech("O"): true}
	for _, o := range orders {
		purch[o.Purchaser] = true
		var r enttypes.QueryEnterpriseUndPurchaseOrderResponse
		if err := w.Query("/mainchain.enterprise.v1.Query/EnterpriseUndPurchaseOrder", &enttypes.QueryEnterpriseUndPurchaseOrderRequest{PurchaseOrderId: o.Id}, &r); err != nil || !protoEq(&r.PurchaseOrder, &o) {
			add("point query of order %d differs from the stored order (err %v)", o.Id, err)
		}
	}
	for p := range purch {
		for st := 0; st <= 4; st++ {
			var want []enttypes.EnterpriseUndPurchaseOrder
			for _, o := range orders {
				if (st == 0 || int(o.Status) == st) && (p == "" || o.Purchaser == p) {
					want = append(want, o)
				}
			}
			p, st := p, st
			evals += listSweep(add, fmt.Sprintf("PurchaseOrders(purchaser=%s,status=%d)", NameOfBech(w, p), st), len(orders), want,
				func(a, b enttypes.EnterpriseUndPurchaseOrder) bool { return protoEq(&a, &b) },
				func(pr *query.PageRequest) ([]enttypes.EnterpriseUndPurchaseOrder, *query.PageResponse, error) {
					var r enttypes.QueryEnterpriseUndPurchaseOrdersResponse
					err := w.Query("/mainchain.enterprise.v1.Query/EnterpriseUndPurchaseOrders", &enttypes.QueryEnterpriseUndPurchaseOrdersRequest{Pagination: pr, Purchaser: p, Status: enttypes.PurchaseOrderStatus(st)}, &r)
					return r.PurchaseOrders, r.Pagination, err
				})
		}
	}
	// ---- whitelist
	{
		var r enttypes.QueryWhitelistResponse
		if qe := w.Query("/mainchain.enterprise.v1.Query/Whitelist", &enttypes.QueryWhitelistRequest{}, &r); qe != nil {
			add("Whitelist query fails: %v", qe)
		}
		want := w.App.EnterpriseKeeper.GetAllWhitelistedAddresses(ctx)
		seen := map[string]int{}
		for _, a := range r.Addresses {
			seen[a]++
			var wr enttypes.QueryWhitelistedResponse
			if err := w.Query("/mainchain.enterprise.v1.Query/Whitelisted", &enttypes.QueryWhitelistedRequest{Address: a}, &wr); err != nil || !wr.Whitelisted {
				add("whitelist lists %s but the point query says not whitelisted (err %v)", a, err)
			}
		}
		for _, a := range want {
			if seen[a] != 1 {
				add("whitelist lists %s %d times", a, seen[a])
			}
		}
		if len(r.Addresses) != len(want) {
			add("whitelist lists %d addresses, %d are stored", len(r.Addresses), len(want))
		}
		evals++
	}
	// ---- wrkchains
	chains := w.App.WrkchainKeeper.GetAllWrkChains(ctx)
	owners, monikers := map[string]bool{"": true, w.Bech("O"): true}, map[string]bool{"": true, "no-such-moniker": true}
	for _, c := range chains {
		owners[c.Owner], monikers[c.Moniker] = true, true
		var r wrkchaintypes.QueryWrkChainResponse
		cc := c
		if err := w.Query("/mainchain.wrkchain.v1.Query/WrkChain", &wrkchaintypes.QueryWrkChainRequest{WrkchainId: c.WrkchainId}, &r); err != nil || !protoEq(r.Wrkchain, &cc) {
			add("point query of wrkchain %d differs from the stored registration (err %v)", c.WrkchainId, err)
		}
	}
	for ow := range owners {
		for mo := range monikers {
			var want []wrkchaintypes.WrkChain
			for _, c := range chains {
				if (ow == "" || c.Owner == ow) && (mo == "" || c.Moniker == mo) {
					want = append(want, c)
				}
			}
			ow, mo := ow, mo
			evals += listSweep(add, fmt.Sprintf("WrkChainsFiltered(owner=%s,moniker=%s)", NameOfBech(w, ow), mo), len(chains), want,
				func(a, b wrkchaintypes.WrkChain) bool { return protoEq(&a, &b) },
				func(pr *query.PageRequest) ([]wrkchaintypes.WrkChain, *query.PageResponse, error) {
					var r wrkchaintypes.QueryWrkChainsFilteredResponse
					err := w.Query("/mainchain.wrkchain.v1.Query/WrkChainsFiltered", &wrkchaintypes.QueryWrkChainsFilteredRequest{Pagination: pr, Owner: ow, Moniker: mo}, &r)
					return r.Wrkchains, r.Pagination, err
				})
		}
	}
	// ---- beacons
	beacons := w.App.BeaconKeeper.GetAllBeacons(ctx)
	owners, monikers = map[string]bool{"": true, w.Bech("O"): true}, map[string]bool{"": true, "no-such-moniker": true}
	for _, c := range beacons {
		owners[c.Owner], monikers[c.Moniker] = true, true
		var r beacontypes.QueryBeaconResponse
		cc := c
		if err := w.Query("/mainchain.beacon.v1.Query/Beacon", &beacontypes.QueryBeaconRequest{BeaconId: c.BeaconId}, &r); err != nil || !protoEq(r.Beacon, &cc) {
			add("point query of beacon %d differs from the stored registration (err %v)", c.BeaconId, err)
		}
	}
	for ow := range owners {
		for mo := range monikers {
			var want []beacontypes.Beacon
			for _, c := range beacons {
				if (ow == "" || c.Owner == ow) && (mo == "" || c.Moniker == mo) {
					want = append(want, c)
				}
			}
			ow, mo := ow, mo
			evals += listSweep(add, fmt.Sprintf("BeaconsFiltered(owner=%s,moniker=%s)", NameOfBech(w, ow), mo), len(beacons), want,
				func(a, b beacontypes.Beacon) bool { return protoEq(&a, &b) },
				func(pr *query.PageRequest) ([]beacontypes.Beacon, *query.PageResponse, error) {
					var r beacontypes.QueryBeaconsFilteredResponse
					err := w.Query("/mainchain.beacon.v1.Query/BeaconsFiltered", &beacontypes.QueryBeaconsFilteredRequest{Pagination: pr, Owner: ow, Moniker: mo}, &r)
					return r.Beacons, r.Pagination, err
				})
		}
	}
	// ---- streams
	type sr = *streamtypes.StreamResult
	var streams []sr
	senders, receivers := map[string]bool{w.Bech("O"): true}, map[string]bool{w.Bech("O"): true}
	func() {
		defer func() {
			if p := recover(); p != nil {
				add("walking the stored streams panics: %v", firstLine(fmt.Sprint(p)))
			}
		}()
		w.App.StreamKeeper.IterateAllStreams(ctx, func(recv, snd sdk.AccAddress, s streamtypes.Stream) bool {
			sc := s
			streams = append(streams, &streamtypes.StreamResult{Receiver: recv.String(), Sender: snd.String(), Stream: &sc})
			senders[snd.String()], receivers[recv.String()] = true, true
			return false
		})
	}()
	eqS := func(a, b sr) bool { return protoEq(a, b) }
	for _, s := range streams {
		var r streamtypes.QueryStreamByReceiverSenderResponse
		if err := w.Query("/mainchain.stream.v1.Query/StreamByReceiverSender", &streamtypes.QueryStreamByReceiverSenderRequest{ReceiverAddr: s.Receiver, SenderAddr: s.Sender}, &r); err != nil || !protoEq(&r.Stream, s) {
			add("point query of stream %s<-%s differs from the stored stream (err %v)", NameOfBech(w, s.Receiver), NameOfBech(w, s.Sender), err)
		}
	}
	evals += listSweep(add, "Streams", len(streams), streams, eqS, func(pr *query.PageRequest) ([]sr, *query.PageResponse, error) {
		var r streamtypes.QueryStreamsResponse
		err := w.Query("/mainchain.stream.v1.Query/Streams", &streamtypes.QueryStreamsRequest{Pagination: pr}, &r)
		return r.Streams, r.Pagination, err
	})
	for snd := range senders {
		var want []sr
		for _, s := range streams {
			if s.Sender == snd {
				want = append(want, s)
			}
		}
		snd := snd
		evals += listSweep(add, "AllStreamsForSender("+NameOfBech(w, snd)+")", len(streams), want, eqS, func(pr *query.PageRequest) ([]sr, *query.PageResponse, error) {
			var r streamtypes.QueryAllStreamsForSenderResponse
			err := w.Query("/mainchain.stream.v1.Query/AllStreamsForSender", &streamtypes.QueryAllStreamsForSenderRequest{SenderAddr: snd, Pagination: pr}, &r)
			return r.Streams, r.Pagination, err
		})
	}
	for rcv := range receivers {
		var want []sr
		for _, s := range streams {
			if s.Receiver == rcv {
				want = append(want, s)
			}
		}
		rcv := rcv
		evals += listSweep(add, "AllStreamsForReceiver("+NameOfBech(w, rcv)+")", len(streams), want, eqS, func(pr *query.PageRequest) ([]sr, *query.PageResponse, error) {
			var r streamtypes.QueryAllStreamsForReceiverResponse
			err := w.Query("/mainchain.stream.v1.Query/AllStreamsForReceiver", &streamtypes.QueryAllStreamsForReceiverRequest{ReceiverAddr: rcv, Pagination: pr}, &r)
			return r.Streams, r.Pagination, err
		})
	}
	// ---- queries never modify state
	after := StoresDump(w)
	for _, s := range mc.CustomStores {
		if d := DiffStores(before[s], after[s]); len(d) > 0 {
			add("the queries changed %s store keys %v", s, d)
		}
	}
	e.Aux["listquery_evals"] += 0 // (kept out of the state key; see counters below)
	listEvals.add(evals)
	return out
}

type counter struct {
	ch chan int
	n  int
}

var listEvals = newCounter()

func newCounter() *counter {
	c := &counter{ch: make(chan int, 1024)}
	go func() {
		for v := range c.ch {
			c.n += v
		}
	}()
	return c
}
func (c *counter) add(v int) { c.ch <- v }

func c20Scenario() *Scenario {
	accts := []mc.AcctSpec{{Name: "S1", Coins: Coins(1000, 0)}, {Name: "O", Coins: Rich()}}
	for _, n := range []string{"P1", "P2", "W1", "W2", "A", "B", "C", "R1", "R2", "R3"} {
		accts = append(accts, mc.AcctSpec{Name: n, Coins: Rich()})
	}
	g := BaseGenesis(accts...)
	g.Whitelist = []string{"P1", "P2"}
	s := &Scenario{Name: "lists", Genesis: g, KeyTimeNs: false, Visit: listQueries, VisitPure: true}
	ms := time.Millisecond
	add := func(a ...Action) { s.Actions = append(s.Actions, a...) }
	pre := func(a Action) { add(a); s.Prefix = append(s.Prefix, a.Name) }
	mkRaise := func(p string, a int64) Action {
		r := raise(p, a, 7)
		return r
	}
	pre(mkRaise("P1", 7))
	pre(mkRaise("P2", 11))
	pre(mkRaise("P1", 5))
	pre(mkRaise("P2", 3))
	pre(mkRaise("P1", 9))
	pre(decide("S1", 1, 2))
	pre(decide("S1", 2, 3))
	wait := Action{Name: "wait(1s)", Dt: time.Second, Enabled: func(m *model.State, _ map[string]int) bool { return elapsed(m) < 40 }}
	add(wait)
	s.Prefix = append(s.Prefix, "wait(1s)", "wait(1s)")
	pre(decide("S1", 3, 2))
	for i, om := range [][2]string{{"W1", "chain-a"}, {"W2", "chain-b"}, {"W1", "chain-a2"}, {"W2", "chain-c"}} {
		mon := om[1]
		if i == 2 {
			mon = "chain-a" // same moniker registered twice
		}
		a := regAct(model.WrkReg, om[0], []string{mon, "Chain", "0xgen", "geth"}, 6)
		a.Name = fmt.Sprintf("wreg(%s,%s,#%d)", om[0], mon, i+1)
		pre(a)
		b := regAct(model.BcnReg, om[0], []string{"b" + mon, "Beacon"}, 6)
		b.Name = fmt.Sprintf("breg(%s,%s,#%d)", om[0], "b"+mon, i+1)
		pre(b)
	}
	for _, sr := range [][2]string{{"A", "R1"}, {"A", "R2"}, {"B", "R1"}, {"B", "R3"}, {"C", "R2"}} {
		pre(Action{Name: fmt.Sprintf("create(%s->%s)", sr[0], sr[1]), Dt: ms, Txs: tx1(model.Msg{Kind: model.StrCreate, From: sr[0], To: sr[1], Den: mc.Nund, Amt: "600", Rate: 1})})
	}
	// receivers whose addresses are not 20 bytes long
	pre(Action{Name: "create(B->L32:M)", Dt: ms, Txs: tx1(model.Msg{Kind: model.StrCreate, From: "B", To: "L32:M", Den: mc.Nund, Amt: "600", Rate: 1})})
	pre(Action{Name: "create(C->L08:N)", Dt: ms, Txs: tx1(model.Msg{Kind: model.StrCreate, From: "C", To: "L08:N", Den: mc.Nund, Amt: "600", Rate: 1})})
	s.Tracked = append(s.Tracked, "L32:M", "L08:N")
	// letters explored after the prefix
	add(
		mkRaise("P2", 13),
		decide("S1", 4, 2), decide("S1", 5, 3),
		Action{Name: "whitelist(S1,+O)", Dt: ms, Txs: tx1(model.Msg{Kind: model.EntWhitelist, From: "S1", To: "O", N: 1})},
		Action{Name: "whitelist(S1,-P1)", Dt: ms, Txs: tx1(model.Msg{Kind: model.EntWhitelist, From: "S1", To: "P1", N: 2})},
		Action{Name: "cancel(A->R2)", Dt: ms, Txs: tx1(model.Msg{Kind: model.StrCancel, From: "A", To: "R2"})},
		Action{Name: "create(C->R3)", Dt: ms, Txs: tx1(model.Msg{Kind: model.StrCreate, From: "C", To: "R3", Den: mc.Tok, Amt: "100", Rate: 1})},
		Action{Name: "claim(R1<-B)", Dt: ms, Txs: tx1(model.Msg{Kind: model.StrClaim, From: "R1", To: "B"})},
		wrecAct("wrec(W1,#1,next)", "W1", 1, func(l uint64) uint64 { return l + 1 }),
	)
	w5 := regAct(model.WrkReg, "O", []string{"chain-b", "Chain", "0xgen", "geth"}, 6)
	w5.Name = "wreg(O,chain-b,#5)"
	b5 := regAct(model.BcnReg, "O", []string{"bchain-b", "Beacon"}, 6)
	b5.Name = "breg(O,bchain-b,#5)"
	add(w5, b5)
	return s
}

func init() {
	Checks["C20"] = func() *Check {
		return &Check{ID: "C20",
			Runs: []Run{{S: c20Scenario(), Opt: map[Tier]Options{
				Quick:    {Depth: 2, Budget: 120 * time.Second, ReplayEvery: 8},
				Thorough: {Depth: 4, Budget: 15 * time.Minute, ReplayEvery: 32, MaxStates: 100000},
			}}},
			Owns: ownsAny("listquery"),
			Extra: func(t Tier, ev *Evidence) []Violation {
				time.Sleep(50 * time.Millisecond)
				ev.Coverage["list_query_sweeps"] = listEvals.n
				return nil
			},
		}
	}
}
