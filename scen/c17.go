package scen

import (
	"fmt"
	"math/big"
	"sort"
	"strings"
	"time"

	sdk "github.com/cosmos/cosmos-sdk/types"
	"github.com/cosmos/cosmos-sdk/types/query"
	enttypes "github.com/unification-com/mainchain/x/enterprise/types"

	"verif/mc"
)

// pageAll walks a paginated query to the end. mode "key" follows next_key, mode "offset" advances the offset.
// pageAllRev pages in reverse order and returns the items in ascending order again.
func pageAllRev[T any](fetch func(pr *query.PageRequest) ([]T, *query.PageResponse, error), limit uint64, mode string, countTotal bool) (items []T, total uint64, pages int, err error) {
	items, total, pages, err = pageAll(func(pr *query.PageRequest) ([]T, *query.PageResponse, error) {
		pr.Reverse = true
		return fetch(pr)
	}, limit, mode, countTotal)
	for i, j := 0, len(items)-1; i < j; i, j = i+1, j-1 {
		items[i], items[j] = items[j], items[i]
	}
	return
}

func pageAll[T any](fetch func(pr *query.PageRequest) ([]T, *query.PageResponse, error), limit uint64, mode string, countTotal bool) (items []T, total uint64, pages int, err error) {
	pr := &query.PageRequest{Limit: limit, CountTotal: countTotal}
	for guard := 0; guard < 10000; guard++ {
		its, resp, e := fetch(pr)
		if e != nil {
			return nil, 0, pages, e
		}
		pages++
		items = append(items, its...)
		if resp != nil && countTotal && pages == 1 {
			total = resp.Total
		}
		if mode == "key" {
			if resp == nil || len(resp.NextKey) == 0 {
				return
			}
			pr = &query.PageRequest{Key: resp.NextKey, Limit: limit}
		} else {
			if uint64(len(its)) < limit || len(its) == 0 {
				return
			}
			pr = &query.PageRequest{Offset: pr.Offset + limit, Limit: limit, CountTotal: false}
		}
	}
	return nil, 0, pages, fmt.Errorf("pagination did not terminate")
}

// supplyQueries is the C17 oracle, evaluated on every committed state.
func supplyQueries(e *Exec) []Disc {
	var out []Disc
	add := func(f string, a ...any) { out = append(out, disc("supplyquery", f, a...)) }
	w := e.W
	ctx := w.Ctx()
	feeDenom := w.App.EnterpriseKeeper.GetParamDenom(ctx)
	locked := w.App.EnterpriseKeeper.GetTotalLockedUnd(ctx).Amount.BigInt()
	bank := map[string]*big.Int{}
	w.App.BankKeeper.IterateTotalSupply(ctx, func(c sdk.Coin) bool { bank[c.Denom] = c.Amount.BigInt(); return false })
	want := func(d string) *big.Int {
		b := bank[d]
		if b == nil {
			b = new(big.Int)
		}
		if d == feeDenom {
			return new(big.Int).Sub(b, locked)
		}
		return new(big.Int).Set(b)
	}
	// the eFUND that is actually locked sits in the enterprise escrow account: the figure served for the
	// native denomination is the bank supply minus exactly that
	if esc := w.App.BankKeeper.GetBalance(ctx, mc.ModAddr("enterprise"), feeDenom).Amount.BigInt(); esc.Cmp(locked) != 0 {
		add("the total locked eFUND used for the circulating supply is %s, the enterprise escrow account holds %s%s", locked, esc, feeDenom)
	}
	denoms := make([]string, 0, len(bank))
	for d := range bank {
		denoms = append(denoms, d)
	}
	sort.Strings(denoms)
	for _, path := range []string{"/mainchain.enterprise.v1.Query/SupplyOf", "/mainchain.enterprise.v1.Query/SupplyOfOverwrite"} {
		for _, d := range append(append([]string{}, denoms...), "nosuchdenom") {
			var r enttypes.QuerySupplyOfResponse
			if err := w.Query(path, &enttypes.QuerySupplyOfRequest{Denom: d}, &r); err != nil {
				add("%s(%s) failed: %v", path, d, err)
				continue
			}
			if r.Amount.Denom != d || r.Amount.Amount.BigInt().Cmp(want(d)) != 0 {
				add("%s(%s) = %s; bank supply %v, total locked eFUND %s => expected %s", path, d, r.Amount, bank[d], locked, want(d))
			}
			if r.Amount.Amount.IsNegative() {
				add("%s(%s) is negative: %s", path, d, r.Amount)
			}
		}
	}
	n := uint64(len(denoms))
	for _, path := range []string{"/mainchain.enterprise.v1.Query/TotalSupply", "/mainchain.enterprise.v1.Query/TotalSupplyOverwrite"} {
		for limit := uint64(1); limit <= n+1; limit++ {
			for _, mode := range []string{"key", "offset"} {
				for ci, ct := range []bool{false, true, false} {
					rev := ci == 2 // the same walk in reverse order
					walk := pageAll[sdk.Coin]
					if rev {
						walk = pageAllRev[sdk.Coin]
					}
					items, total, _, err := walk(func(pr *query.PageRequest) ([]sdk.Coin, *query.PageResponse, error) {
						var r enttypes.QueryTotalSupplyResponse
						err := w.Query(path, &enttypes.QueryTotalSupplyRequest{Pagination: pr}, &r)
						return r.Supply, r.Pagination, err
					}, limit, mode, ct)
					tag := fmt.Sprintf("%s limit=%d %s count_total=%v reverse=%v", path[strings.LastIndex(path, "/")+1:], limit, mode, ct, rev)
					if err != nil {
						add("%s failed: %v", tag, err)
						continue
					}
					seen := map[string]int{}
					for _, c := range items {
						seen[c.Denom]++
						if c.Amount.BigInt().Cmp(want(c.Denom)) != 0 {
							add("%s lists %s; expected %s%s (bank supply %v, locked %s)", tag, c, want(c.Denom), c.Denom, bank[c.Denom], locked)
						}
					}
					for _, d := range denoms {
						if seen[d] != 1 {
							add("%s lists denomination %s %d times", tag, d, seen[d])
						}
					}
					if len(seen) != len(denoms) {
						add("%s lists %d denominations, the bank has %d", tag, len(seen), len(denoms))
					}
					if ct && total != n {
						add("%s reports total %d, the bank has %d denominations", tag, total, n)
					}
				}
			}
		}
	}
	// single pages from every possible key with every limit, in both directions (a client may change the limit
	// between pages or resume from a key it kept): the page holds exactly the expected run of denominations,
	// each with the expected amount
	sorted := append([]string{}, denoms...)
	sort.Strings(sorted)
	for _, path := range []string{"/mainchain.enterprise.v1.Query/TotalSupply", "/mainchain.enterprise.v1.Query/TotalSupplyOverwrite"} {
		for di, d := range sorted {
			for limit := 1; limit <= len(sorted); limit++ {
				for _, rev := range []bool{false, true} {
					if rev && di == len(sorted)-1 {
						// a reverse page *from the greatest key* is a request no response ever suggests (in reverse order
						// the greatest key comes first, without a key); SDK 0.47.13's query.getIterator panics on it
						// (Next() past the end, then Key()) for every paginated store, the bank's own endpoint included:
						// substrate behaviour, the same with and without this chain's code (DESIGN 13)
						continue
					}
					var r enttypes.QueryTotalSupplyResponse
					err := w.Query(path, &enttypes.QueryTotalSupplyRequest{Pagination: &query.PageRequest{Key: []byte(d), Limit: uint64(limit), Reverse: rev}}, &r)
					tag := fmt.Sprintf("%s key=%s limit=%d reverse=%v", path[strings.LastIndex(path, "/")+1:], d, limit, rev)
					if err != nil {
						add("%s failed: %v", tag, err)
						continue
					}
					var exp []string
					for k := 0; k < limit; k++ {
						j := di + k
						if rev {
							j = di - k
						}
						if j < 0 || j >= len(sorted) {
							break
						}
						exp = append(exp, sorted[j])
					}
					var got []string
					for _, c := range r.Supply {
						got = append(got, c.Denom)
						if c.Amount.BigInt().Cmp(want(c.Denom)) != 0 {
							add("%s lists %s; expected %s%s (bank supply %v, locked %s)", tag, c, want(c.Denom), c.Denom, bank[c.Denom], locked)
						}
					}
					sort.Strings(got)
					es := append([]string{}, exp...)
					sort.Strings(es)
					if strings.Join(got, ",") != strings.Join(es, ",") {
						add("%s lists %v; expected %v", tag, got, es)
					}
				}
			}
		}
	}
	// EnterpriseSupply / TotalUnlocked / TotalLocked (uint64 fields: beyond 2^64 the query is not judged)
	bs := bank[feeDenom]
	if bs == nil {
		bs = new(big.Int)
	}
	if bs.IsUint64() {
		var r enttypes.QueryEnterpriseSupplyResponse
		if err := w.Query("/mainchain.enterprise.v1.Query/EnterpriseSupply", &enttypes.QueryEnterpriseSupplyRequest{}, &r); err != nil {
			add("EnterpriseSupply failed: %v", err)
		} else {
			s := r.Supply
			if s.Denom != feeDenom || s.Total != bs.Uint64() || s.Locked != locked.Uint64() || new(big.Int).SetUint64(s.Amount).Cmp(want(feeDenom)) != 0 || s.Locked+s.Amount != s.Total {
				add("EnterpriseSupply = %+v; bank supply %s, locked %s", s, bs, locked)
			}
		}
	}
	var ur enttypes.QueryTotalUnlockedResponse
	if err := w.Query("/mainchain.enterprise.v1.Query/TotalUnlocked", &enttypes.QueryTotalUnlockedRequest{}, &ur); err != nil {
		add("TotalUnlocked failed: %v", err)
	} else if ur.Amount.Amount.BigInt().Cmp(want(feeDenom)) != 0 || ur.Amount.Amount.IsNegative() {
		add("TotalUnlocked = %s; expected %s", ur.Amount, want(feeDenom))
	}
	var lr enttypes.QueryTotalLockedResponse
	if err := w.Query("/mainchain.enterprise.v1.Query/TotalLocked", &enttypes.QueryTotalLockedRequest{}, &lr); err != nil {
		add("TotalLocked failed: %v", err)
	} else if lr.Amount.Amount.BigInt().Cmp(locked) != 0 {
		add("TotalLocked = %s; stored %s", lr.Amount, locked)
	}
	return out
}

func init() {
	Checks["C17"] = func() *Check {
		sc := efundScenario()
		sc.Name = "efund-supply-queries"
		sc.Visit = supplyQueries
		sc.VisitPure = true
		// further denominations so that pagination has something to page over: a voucher-style one with upper-case hex, and one that differs from the native denomination by case only
		for i := range sc.Genesis.Accounts {
			if sc.Genesis.Accounts[i].Name == "O" {
				sc.Genesis.Accounts[i].Coins = sc.Genesis.Accounts[i].Coins.Add(sdk.NewInt64Coin("abc", 5)).Add(sdk.NewInt64Coin("zzz", 9)).
					Add(sdk.NewInt64Coin("ibc/27394FB092D2ECCD56123C74F36E4C1F926001CEADA9CA97EA622B25F41E5EB2", 333)).Add(sdk.NewInt64Coin("Nund", 3)) // case matters
			}
		}
		last := efundLast()
		last.Name = "efund-last-supply-queries"
		last.Visit = supplyQueries
		last.VisitPure = true
		for i := range last.Genesis.Accounts {
			if last.Genesis.Accounts[i].Name == "O" {
				last.Genesis.Accounts[i].Coins = last.Genesis.Accounts[i].Coins.Add(sdk.NewInt64Coin("abc", 5)).Add(sdk.NewInt64Coin("zzz", 9))
			}
		}
		return &Check{ID: "C17",
			Runs: []Run{{S: sc, Opt: map[Tier]Options{
				Quick:    {Depth: 3, Budget: 150 * time.Second, ReplayEvery: 16},
				Thorough: {Depth: 5, Budget: 12 * time.Minute, ReplayEvery: 32, MaxStates: 300000},
			}}, {S: last, Opt: map[Tier]Options{
				Quick:    {Depth: 4, Budget: 60 * time.Second, ReplayEvery: 16},
				Thorough: {Depth: 7, Budget: 4 * time.Minute, ReplayEvery: 32, MaxStates: 100000},
			}}},
			Owns:        ownsAny("supplyquery"),
			Assumptions: []string{"which HTTP route wins in the REST gateway is router configuration and not part of the state space; the gRPC query servers (incl. the *Overwrite methods that shadow the bank endpoints) are what is checked", "EnterpriseSupply has uint64 fields: not judged beyond 2^64 nund"},
		}
	}
}

var _ = mc.Nund
