package scen

import (
	"fmt"
	"math/big"
	"os"
	"sort"
	"strings"
	"sync"
	"time"

	"verif/mc"
	"verif/model"
)

// ---- C06: CheckTx admission fan-out ------------------------------------------------------------

type c06Case struct {
	Payer   string   `json:"payer"`
	Wrap    string   `json:"wrap"` // top | nested | first-nested
	Seq     []string `json:"msgs"`
	Offered string   `json:"offered_nund"` // "" = no fee-denom coin
	Extra   bool     `json:"extra_denom"`
	Recheck bool     `json:"recheck"`               // CheckTx in re-check mode (what the mempool runs after every commit)
	Granter bool     `json:"self_fee_granter"`      // the fee-granter field names the payer itself (legal, needs no allowance)
	GrantBy string   `json:"fee_granter,omitempty"` // another account that granted the payer an allowance
	tx      model.Tx
	req     *big.Int
}

func c06Base(name string, wrkRec, bcnRec uint64, govFees bool, failedGov ...bool) *Scenario {
	g := BaseGenesis(
		mc.AcctSpec{Name: "S1", Coins: Coins(1000, 0)},
		mc.AcctSpec{Name: "WR", Coins: Rich()},
		mc.AcctSpec{Name: "WL", Coins: Coins(24+31+20, 0)},
		mc.AcctSpec{Name: "WP", Coins: Coins(24+31+1, 0)},
		mc.AcctSpec{Name: "O", Coins: Rich()},
	)
	g.Whitelist = []string{"WL"}
	g.Wrk.FeeRec, g.Beacon.FeeRec = wrkRec, bcnRec
	s := &Scenario{Name: name, Genesis: g, KeyTimeNs: false}
	ms := time.Millisecond
	for _, p := range []string{"WR", "WL", "WP"} {
		p := p
		s.Actions = append(s.Actions,
			regAct(model.WrkReg, p, []string{"chain-" + p, "Chain", "0xgen", "geth"}, 3), regAct(model.BcnReg, p, []string{"beacon-" + p, "Beacon"}, 3),
			Action{Name: "grant(" + p + "->O,all)", Dt: ms, Txs: func(*model.State) []model.Tx {
				var ms []model.Msg
				for _, k := range []string{model.WrkReg, model.WrkRec, model.WrkPur, model.BcnReg, model.BcnRec, model.BcnPur, model.BankSend} {
					ms = append(ms, model.Msg{Kind: model.AuthzGrant, From: p, To: "O", URL: k})
				}
				return []model.Tx{{Msgs: ms}}
			}})
		s.Prefix = append(s.Prefix, "wreg("+p+",chain-"+p+")", "breg("+p+",beacon-"+p+")", "grant("+p+"->O,all)")
	}
	fgr := Action{Name: "feegrant(O->WR,WL,WP)", Dt: ms, Txs: func(*model.State) []model.Tx {
		return []model.Tx{{Msgs: []model.Msg{{Kind: model.FeeGrant, From: "O", To: "WR"}, {Kind: model.FeeGrant, From: "O", To: "WL"}, {Kind: model.FeeGrant, From: "O", To: "WP"}}}}
	}}
	s.Actions = append(s.Actions, fgr)
	s.Prefix = append(s.Prefix, fgr.Name)
	s.Actions = append(s.Actions, raise("WL", 50, 1), decide("S1", 1, 2), Action{Name: "wait(1s)", Dt: time.Second})
	s.Prefix = append(s.Prefix, "raise(WL,50)", "accept(S1,#1)", "wait(1s)", "wait(1s)")
	if len(failedGov) > 0 && failedGov[0] {
		// proposals that pass the vote and are rolled back when executed: the fees in force stay as they were
		a := failing(govOnce("gov(bcn:fees=1/1/1)+failing-msg", model.BcnParams, model.AnchorParams{FeeReg: 1, FeeRec: 1, FeePur: 1, Denom: mc.Nund, Default: 2, Max: 4}))
		b := failing(govOnce("gov(wrk:fees=1/1/1)+failing-msg", model.WrkParams, model.AnchorParams{FeeReg: 1, FeeRec: 1, FeePur: 1, Denom: mc.Nund, Default: 2, Max: 4}))
		a.Enabled, b.Enabled = nil, nil
		s.Actions = append(s.Actions, a, b)
		s.Prefix = append(s.Prefix, a.Name, b.Name)
	}
	if govFees {
		s.Actions = append(s.Actions,
			govOnce("gov(wrk:fees=11/4/6)", model.WrkParams, model.AnchorParams{FeeReg: 11, FeeRec: 4, FeePur: 6, Denom: mc.Nund, Default: 2, Max: 4}))
		s.Prefix = append(s.Prefix, "gov(wrk:fees=11/4/6)")
		// ... and the chain then goes through the in-place software upgrade, which moves the fee schedule from
		// x/params into the module stores: the schedule set by governance stays in force
		up := upgradeAct()
		up.Enabled = nil
		s.Actions = append(s.Actions, up)
		s.Prefix = append(s.Prefix, up.Name)
	}
	return s
}

func c06Msg(m *model.State, p, code string) model.Msg {
	wid, bid := ownedID(&m.Wrk, p), ownedID(&m.Bcn, p)
	switch code {
	case "Wreg":
		return model.Msg{Kind: model.WrkReg, From: p, S: []string{"m2", "n", "0xg", "t"}}
	case "Wrec":
		return model.Msg{Kind: model.WrkRec, From: p, ID: wid, H: m.Wrk.Ents[wid].Last + 1, S: []string{"0xb", "", "", "", ""}}
	case "Wpur1":
		return model.Msg{Kind: model.WrkPur, From: p, ID: wid, N: 1}
	case "Wpur2":
		return model.Msg{Kind: model.WrkPur, From: p, ID: wid, N: 2}
	case "Breg":
		return model.Msg{Kind: model.BcnReg, From: p, S: []string{"bm2", "bn"}}
	case "Brec":
		return model.Msg{Kind: model.BcnRec, From: p, ID: bid, S: []string{"0xts"}, T: 1_600_000_000}
	case "Bpur1":
		return model.Msg{Kind: model.BcnPur, From: p, ID: bid, N: 1}
	case "Bpur2":
		return model.Msg{Kind: model.BcnPur, From: p, ID: bid, N: 2}
	case "send":
		return model.Msg{Kind: model.BankSend, From: p, To: "O", Den: mc.Nund, Amt: "1"}
	}
	panic(code)
}

var c06Alphabet = []string{"Wreg", "Wrec", "Wpur1", "Wpur2", "Breg", "Brec", "Bpur1", "Bpur2", "send"}

// c06Stale: fee schedules that are NOT in force in a base state but that the chain has seen (the
// genesis schedule after a governance change; the schedule of a proposal that was rolled back): what a
// fee check reading stale parameters would ask for.
var c06Stale = map[string][][2]model.AnchorParams{
	"fees-after-gov":        {{{FeeReg: 24, FeeRec: 2, FeePur: 3}, {FeeReg: 31, FeeRec: 5, FeePur: 7}}},
	"fees-after-failed-gov": {{{FeeReg: 1, FeeRec: 1, FeePur: 1}, {FeeReg: 1, FeeRec: 1, FeePur: 1}}},
}

func staleFee(p [2]model.AnchorParams, mm model.Msg) *big.Int {
	a := p[0]
	if strings.HasPrefix(mm.Kind, "bcn.") {
		a = p[1]
	}
	switch mm.Kind {
	case model.WrkReg, model.BcnReg:
		return model.U(a.FeeReg)
	case model.WrkRec, model.BcnRec:
		return model.U(a.FeeRec)
	case model.WrkPur, model.BcnPur:
		return new(big.Int).Mul(model.U(a.FeePur), model.U(mm.N))
	}
	return new(big.Int)
}

func c06Cases(name string, m *model.State, maxLen int) []c06Case {
	var seqs [][]string
	var rec func(cur []string)
	rec = func(cur []string) {
		if len(cur) > 0 {
			seqs = append(seqs, append([]string{}, cur...))
		}
		if len(cur) == maxLen {
			return
		}
		for _, c := range c06Alphabet {
			rec(append(cur, c))
		}
	}
	rec(nil)
	var out []c06Case
	for _, p := range []string{"WR", "WL", "WP"} {
		for _, sq := range seqs {
			var msgs []model.Msg
			req := new(big.Int)
			for _, c := range sq {
				mm := c06Msg(m, p, c)
				msgs = append(msgs, mm)
				if f, ok := m.AnchorFee(mm); ok {
					req.Add(req, f)
				}
			}
			if req.Sign() == 0 {
				continue // no module message: outside the statement
			}
			for _, wrap := range []string{"top", "nested", "first-nested"} {
				var tmsgs []model.Msg
				switch wrap {
				case "top":
					tmsgs = msgs
				case "nested":
					tmsgs = []model.Msg{{Kind: model.AuthzExec, From: "O", Inner: msgs}}
				case "first-nested":
					if len(msgs) < 2 {
						continue
					}
					tmsgs = append([]model.Msg{{Kind: model.AuthzExec, From: "O", Inner: msgs[:1]}}, msgs[1:]...)
				}
				offers := []string{"", new(big.Int).Sub(req, big.NewInt(1)).String(), req.String(), new(big.Int).Add(req, big.NewInt(1)).String()}
				// every sum over a proper subset of the module messages (what a fee computation that drops,
				// overwrites or double-skips a message would compare with); this includes each module's own
				// sum when both modules are present (what each decorator compares with)
				var fees []*big.Int
				for _, mm := range msgs {
					if f, ok := m.AnchorFee(mm); ok {
						fees = append(fees, f)
					}
				}
				// the sum under every schedule that is not in force any more / never came into force
				for _, st := range c06Stale[name] {
					x := new(big.Int)
					for _, mm := range msgs {
						x.Add(x, staleFee(st, mm))
					}
					dup := x.Cmp(req) == 0
					for _, o := range offers {
						if o == x.String() {
							dup = true
						}
					}
					if !dup {
						offers = append(offers, x.String())
					}
				}
				for mask := 1; mask < (1<<len(fees))-1; mask++ {
					x := new(big.Int)
					for i, f := range fees {
						if mask&(1<<i) != 0 {
							x.Add(x, f)
						}
					}
					dup := false
					for _, o := range offers {
						if o == x.String() {
							dup = true
						}
					}
					if !dup {
						offers = append(offers, x.String())
					}
				}
				for _, off := range offers {
					if off == "0" {
						continue
					}
					for _, extra := range []bool{false, true} {
						f := map[string]string{}
						if off != "" {
							f[mc.Nund] = off
						}
						if extra {
							f[mc.Tok] = "1"
						}
						for _, re := range []bool{false, true} {
							if re && len(sq) > 2 {
								continue // re-check mode: sequences of up to two messages
							}
							out = append(out, c06Case{Payer: p, Wrap: wrap, Seq: sq, Offered: off, Extra: extra, Recheck: re, tx: model.Tx{Msgs: tmsgs, Fee: f}, req: req})
							// the rarely used fee-granter field, naming the payer itself: short top-level sequences
							if !re && !extra && wrap == "top" && len(sq) <= 2 {
								out = append(out, c06Case{Payer: p, Wrap: wrap, Seq: sq, Offered: off, Extra: extra, Granter: true, tx: model.Tx{Msgs: tmsgs, Fee: f, FeeGranter: p}, req: req})
								out = append(out, c06Case{Payer: p, Wrap: wrap, Seq: sq, Offered: off, Extra: extra, GrantBy: "O", tx: model.Tx{Msgs: tmsgs, Fee: f, FeeGranter: "O"}, req: req})
							}
						}
					}
				}
			}
		}
	}
	return out
}

func c06Extra(t Tier, ev *Evidence) []Violation {
	maxLen := 3
	if t == Thorough {
		maxLen = 4
	}
	bases := []*Scenario{c06Base("fees-primes", 2, 5, false), c06Base("fees-equal-record", 5, 5, false), c06Base("fees-after-gov", 2, 5, true), c06Base("fees-after-failed-gov", 2, 5, false, true)}
	bySig := map[string]Violation{}
	total, admitted, distinct := 0, 0, 0
	hist := map[string]int{}
	var samples []any
	t0 := time.Now()
	budget := 150 * time.Second
	if t == Thorough {
		budget = 15 * time.Minute
	}
	budget = ScaleBudget(budget)
	exhaustive := true
	for _, sc := range bases {
		nw := 16
		execs := make([]*Exec, nw)
		var wg sync.WaitGroup
		for i := range execs {
			wg.Add(1)
			go func(i int) {
				defer wg.Done()
				e := sc.NewExec()
				for _, pn := range sc.Prefix {
					obs, ds := e.Run(sc.action(pn), true)
					for _, d := range ds {
						if d.Kind != "ent.completion_spendable" {
							fmt.Fprintf(os.Stderr, "HARNESS-ERROR C06 prefix step %s of %s: %s: %s\n", pn, sc.Name, d.Kind, d.Detail)
							os.Exit(2)
						}
					}
					if obs.Halted || obs.Diverged {
						fmt.Fprintf(os.Stderr, "HARNESS-ERROR C06 prefix step %s of %s halted/diverged\n", pn, sc.Name)
						os.Exit(2)
					}
				}
				execs[i] = e
			}(i)
		}
		wg.Wait()
		ml := maxLen
		if _, stale := c06Stale[sc.Name]; stale {
			ml = maxLen - 1 // the two base states about stale schedules use sequences one shorter
		}
		cases := c06Cases(sc.Name, execs[0].M, ml)
		type res struct {
			code uint32
			log  string
		}
		results := make([]res, len(cases))
		done := make([]bool, len(cases))
		for wi, e := range execs {
			wg.Add(1)
			go func(wi int, e *Exec) {
				defer wg.Done()
				for ci := wi; ci < len(cases); ci += nw {
					if time.Since(t0) > budget {
						return
					}
					c := cases[ci]
					bz, err := e.W.Sign(BuildTx(e.W, c.tx))
					if err != nil {
						fmt.Fprintf(os.Stderr, "HARNESS-ERROR C06 cannot sign %+v: %v\n", c, err)
						os.Exit(2)
					}
					var r mc.TxRes
					if c.Recheck {
						r = e.W.ReCheckTx(bz)
					} else {
						r = e.W.CheckTx(bz)
					}
					results[ci] = res{r.Code, firstLine(r.Log)}
					done[ci] = true
					if r.Code == 0 {
						// an admitted tx advanced the check state; committing an empty block resets it
						e.W.RunBlock(time.Millisecond, nil)
					}
				}
			}(wi, e)
		}
		wg.Wait()
		m := execs[0].M
		env := implEnv{execs[0].W}
		seenCls := map[string]bool{}
		for ci, c := range cases {
			if !done[ci] {
				exhaustive = false
				continue
			}
			total++
			r := results[ci]
			payer := c.tx.Payer()
			offered := c.tx.FeeOf(mc.Nund)
			cls := fmt.Sprintf("%s|%s|%d|%s|%v|%v|%v|%s", c.Wrap, strings.Join(c.Seq, "+"), offered.Cmp(c.req), c.Payer, c.Extra, c.Recheck, c.Granter, c.GrantBy)
			if !seenCls[cls] {
				seenCls[cls] = true
				distinct++
			}
			rel := map[int]string{-1: "lt", 0: "eq", 1: "gt"}[offered.Cmp(c.req)]
			if c.Offered == "" {
				rel = "absent"
			}
			mode := ""
			if c.Recheck {
				mode = "recheck/"
			}
			if r.code != 0 {
				hist[mode+"rejected/"+c.Wrap+"/"+rel]++
				continue
			}
			admitted++
			hist[mode+"admitted/"+c.Wrap+"/"+rel]++
			if len(samples) < 4 {
				samples = append(samples, map[string]any{"scenario": sc.Name, "case": c, "required": c.req.String(), "code": r.code})
			}
			liquid := m.BalOf(payer, mc.Nund)
			spend := m.Spendable(env, payer, mc.Nund)
			locked := m.LockedOf(payer)
			afford := new(big.Int).Add(liquid, locked).Cmp(c.req) >= 0 && new(big.Int).Add(spend, locked).Cmp(c.req) >= 0
			if offered.Cmp(c.req) == 0 && afford {
				continue
			}
			// classify
			flat := model.Flatten(c.tx.Msgs)
			nestedMod, topMod, hasW, hasB := 0, 0, false, false
			for _, mm := range c.tx.Msgs {
				if model.IsAnchorKind(mm.Kind) {
					topMod++
				}
			}
			for _, mm := range flat {
				if model.IsAnchorKind(mm.Kind) {
					if strings.HasPrefix(mm.Kind, "wrk.") {
						hasW = true
					} else {
						hasB = true
					}
				}
			}
			for _, mm := range flat {
				if model.IsAnchorKind(mm.Kind) {
					nestedMod++
				}
			}
			nestedMod -= topMod
			// the two modules' own sums (each decorator compares the offer with its module's sum only)
			sumW, sumB := new(big.Int), new(big.Int)
			for _, mm := range flat {
				if f, ok := m.AnchorFee(mm); ok {
					if strings.HasPrefix(mm.Kind, "wrk.") {
						sumW.Add(sumW, f)
					} else {
						sumB.Add(sumB, f)
					}
				}
			}
			nest := "none"
			if nestedMod > 0 && topMod == 0 {
				nest = "all"
			} else if nestedMod > 0 {
				nest = "some"
			}
			kind := "fee.admitted_wrong_amount"
			if offered.Cmp(c.req) == 0 {
				kind = "fee.admitted_unaffordable"
			}
			d := Disc{Kind: kind, Detail: fmt.Sprintf("CheckTx (recheck mode: %v) admitted %s (payer %s, wrapping %s) offering %q nund (extra denom %v) while the parameterised fee is %s and the payer holds liquid %s / spendable %s / locked %s",
				c.Recheck, strings.Join(c.Seq, "+"), payer, c.Wrap, c.Offered, c.Extra, c.req, liquid, spend, locked),
				Sig: map[string]string{"module_msgs_nested_in_MsgExec": nest, "both_modules_present": fmt.Sprint(hasW && hasB), "offered_equals_each_modules_own_sum": fmt.Sprint(hasW && hasB && offered.Cmp(sumW) == 0 && offered.Cmp(sumB) == 0), "extra_denom_present": fmt.Sprint(c.Extra), "offered_vs_required": rel, "checktx_mode": map[bool]string{false: "new", true: "recheck"}[c.Recheck], "self_fee_granter": fmt.Sprint(c.Granter), "fee_granter_with_allowance": fmt.Sprint(c.GrantBy != "")}}
			v := Violation{Property: "C06", Scenario: sc.Name, Path: append(append([]string{}, sc.Prefix...), "CheckTx:"+txJSON(c.tx)), Disc: d}
			k := d.Kind + fmt.Sprint(d.Sig)
			if old, ok := bySig[k]; !ok || len(v.Path[len(v.Path)-1]) < len(old.Path[len(old.Path)-1]) {
				bySig[k] = v
			}
		}
	}
	// one violation per signature: the one with the shortest transaction
	var keys []string
	for k := range bySig {
		keys = append(keys, k)
	}
	sort.Strings(keys)
	var kept []Violation
	for _, k := range keys {
		kept = append(kept, bySig[k])
	}
	ev.Coverage["evaluations"] = total
	ev.Coverage["distinct_nontrivial"] = distinct
	ev.Coverage["states"] = len(bases)
	ev.Coverage["transitions"] = total
	ev.Coverage["traces_validated_against_impl"] = total
	ev.Coverage["admitted"] = admitted
	ev.Coverage["outcomes"] = hist
	ev.Coverage["exhaustive"] = exhaustive
	ev.Coverage["rule"] = fmt.Sprintf("from %d base states (three payer classes: rich, liquid<fee<=liquid+locked, poor; four fee histories incl. one changed by governance and one where governance proposals changing the fees were rolled back): all message sequences of length <= %d (one shorter in the two base states with a changed / rolled-back schedule; <= 2 in re-check mode) over %v x wrapping {top, all nested in MsgExec, first nested} x offered {absent, required-1, required, required+1, every proper subset sum of the per-message fees, the sum under fee schedules that are no longer / never were in force} x extra denom {no, yes} x CheckTx mode {new, recheck} x fee-granter field {unset, the payer itself, another account with an allowance (top-level sequences <= 2)}; one real CheckTx each; distinct = distinct (wrapping, sequence, offered-vs-required, payer, extra) classes", len(bases), maxLen, c06Alphabet)
	ev.Coverage["samples"] = samples
	if admitted == 0 {
		fmt.Fprintln(os.Stderr, "WARNING C06: no transaction was admitted at all; the one-sided oracle is vacuous on this tree")
	}
	return kept
}

func init() {
	Checks["C06"] = func() *Check {
		return &Check{ID: "C06", Extra: c06Extra, Owns: ownsAny("fee."),
			Assumptions: []string{"one-sided oracle as the statement is one-sided: admitted => exact fee and affordable; rejected transactions are never judged", "transactions without any WRKChain/BEACON message (after flattening MsgExec) are outside the statement"}}
	}
}
