package scen

import (
	"bytes"
	"encoding/hex"
	"encoding/json"
	"fmt"
	"os"
	"runtime"
	"sort"
	"strconv"
	"strings"
	"sync"
	"sync/atomic"
	"time"

	dbm "github.com/cometbft/cometbft-db"

	"verif/mc"
	"verif/model"
)

// Scenario: genesis + alphabet + caps.
type Scenario struct {
	Name      string
	Genesis   mc.GenesisSpec
	Tracked   []string
	Actions   []Action
	KeyTimeNs bool
	Prefix    []string // action names executed (and model-checked) before the search starts
	// Visit: extra oracle evaluated on every new state (committed); may use the model
	Visit func(e *Exec) []Disc
	// AfterTx: extra per-transaction oracle
	AfterTx     func(e *Exec, obs *TxObs, pre, post map[string][]mc.KV) []Disc
	PostProcess func(e *Exec, discs []Disc) []Disc
	// VisitMidUpgrade: see Exec.VisitMidUpgrade
	VisitMidUpgrade bool
	// VisitAfterPrefix: Visit is first run on the state the prefix ends in (not after each of its blocks)
	VisitAfterPrefix bool
	// VisitPure: Visit only reads (no observations kept in the model state), so executions that run
	// without oracles (conformance replays) may skip it
	VisitPure bool
	// Annotate adds discrete facts to discrepancies (known-finding signatures)
	Annotate func(e *Exec, d *Disc, tx *model.Tx)
	// Setup is run on every fresh world right after genesis (harness-level, e.g. funding by keeper is NOT allowed; only tx prefixes)
}

func (s *Scenario) action(name string) *Action {
	for i := range s.Actions {
		if s.Actions[i].Name == name {
			return &s.Actions[i]
		}
	}
	panic("scenario " + s.Name + ": unknown action " + name)
}

var DefaultTracked = []string{model.ModEnt, model.ModStr, model.ModFee, model.ModDist, model.ModGov}

func (s *Scenario) tracked() []string {
	seen := map[string]bool{}
	var out []string
	for _, n := range append(append([]string{"V"}, s.Tracked...), DefaultTracked...) {
		if !seen[n] {
			seen[n] = true
			out = append(out, n)
		}
	}
	for _, a := range s.Genesis.Accounts {
		if !seen[a.Name] {
			seen[a.Name] = true
			out = append(out, a.Name)
		}
	}
	return out
}

// genesis cache: the database right after InitChain + first empty block, per scenario
type genCache struct {
	kvs    []mc.KV
	height int64
	t      time.Time
}

var (
	genMu     sync.Mutex
	genCaches = map[string]*genCache{}
)

// NewExec creates a fresh application for the scenario (no restore-in-place involved): the
// genesis database is produced once by InitChain and copied into a new MemDB for each instance.
func (s *Scenario) NewExec() *Exec {
	genMu.Lock()
	gc := genCaches[s.Name]
	if gc == nil {
		w, err := mc.NewWorld(s.Genesis)
		if err != nil {
			genMu.Unlock()
			panic(fmt.Sprintf("harness: scenario %s genesis: %v", s.Name, err))
		}
		gc = &genCache{kvs: mc.DumpDB(w.DB), height: w.Height, t: w.Time}
		genCaches[s.Name] = gc
	}
	genMu.Unlock()
	db := dbm.NewMemDB()
	for _, kv := range gc.kvs {
		must(db.Set(kv.K, kv.V))
	}
	w := &mc.World{DB: db, Spec: s.Genesis, Accts: map[string]*mc.Acct{}, ByAddr: map[string]string{}}
	w.App = mc.NewAppOn(db, true, s.Genesis.SkipGenesisInvariants)
	w.Height, w.Time = gc.height, gc.t
	// warm-up: a freshly started process does one-time in-memory initialisation in its first
	// BeginBlock (x/capability InitMemStore), which is charged to the block context's gas meter.
	// Run one throw-away block and put the database back, so that every explored transition runs
	// on an instance in "has been running" condition, whatever jobs it executed before.
	{
		pre := w.Snapshot()
		w.RunBlock(time.Millisecond, nil)
		w.Restore(pre)
	}
	w.Acct("V")
	for _, a := range s.Genesis.Accounts {
		w.Acct(a.Name)
	}
	tr := s.tracked()
	for _, n := range tr {
		if !strings.HasPrefix(n, "mod:") {
			w.Acct(n)
		}
	}
	e := &Exec{W: w, Tracked: tr, Aux: map[string]int{}, AfterTx: s.AfterTx, Annotate: s.Annotate, Visit: s.Visit, PostProcess: s.PostProcess, VisitMidUpgrade: s.VisitMidUpgrade}
	e.M = InitModel(w, tr)
	if e.Visit != nil {
		e.InitDiscs = e.Visit(e)
	}
	return e
}

type node struct {
	path    []int
	snap    *mc.Snap
	m       *model.State
	aux     map[string]int
	key     [32]byte
	appHash string
	obs     StepObs
	dead    bool // diverged or halted: not expanded
	// degraded: model and implementation disagreed on the way here (see Exec.Degraded)
	degraded bool
	// a node without a snapshot of its own (memory cap reached) is re-derived when it is expanded: restore
	// the nearest ancestor that has one and replay the letters in between
	anc     *node
	suffix  []int
	enabled []bool // which letters are enabled here (kept instead of the model state)
}

// Violation is a discrepancy owned by the property being checked, with the path that reaches it.
type Violation struct {
	Property string   `json:"property"`
	Scenario string   `json:"scenario"`
	Path     []string `json:"path"`
	Disc     Disc     `json:"disc"`
	Step     *StepObs `json:"step,omitempty"`
	Known    string   `json:"known_finding,omitempty"`
}

type Stats struct {
	Scenario              string         `json:"scenario"`
	States                int            `json:"states"`
	Transitions           int            `json:"transitions"`
	Blocks                int            `json:"blocks"`
	Txs                   int            `json:"txs"`
	DepthCompleted        int            `json:"depth_completed"`
	Closed                bool           `json:"closed"`
	Exhaustive            bool           `json:"exhaustive"`
	StoppedBy             string         `json:"stopped_by,omitempty"`
	Replayed              int            `json:"traces_validated_against_impl"`
	OracleEvals           int            `json:"oracle_evaluations"`
	Outcomes              map[string]int `json:"outcomes"` // action kind/result histogram
	Foreign               map[string]int `json:"foreign_discrepancies,omitempty"`
	DeadStates            int            `json:"states_past_a_disagreement_with_the_model,omitempty"`
	PartialLevel          int            `json:"transitions_checked_in_the_unfinished_level,omitempty"`
	LazyNodes             int            `json:"nodes_rederived_from_an_ancestor_snapshot,omitempty"`
	ConformanceMismatches int            `json:"conformance_mismatches,omitempty"`
	MaxFrontier           int            `json:"max_frontier"`
	Samples               [][]string     `json:"-"`
	WallS                 float64        `json:"wall_s"`
	Actions               []string       `json:"alphabet"`
}

type Options struct {
	Depth       int
	MaxStates   int
	Budget      time.Duration
	ReplayEvery int // conformance replay of every n-th new node (1 = all)
	Workers     int
	Owns        func(kind string) bool
	Property    string
	MaxViol     int
	// FreshJobs: every transition is executed on a fresh application that first replays the parent's whole
	// path from genesis (no restore-in-place, no instance re-use): exactly what a node that has been
	// running since genesis does, including whatever it keeps in memory. Costs one application start per
	// transition; used where the fan-out is small.
	FreshJobs bool
	// NoOracle: execute and de-duplicate only (C01 twins); Record receives every transition in deterministic order
	NoOracle bool
	Record   func(path []string, obs *StepObs)
	// OnNode is called (sequentially) for every new node with the parent's snapshot material (C01 crash enumeration)
	OnEdge func(parent *EdgeCtx)
}

// EdgeCtx describes one explored edge for edge-based checks.
type EdgeCtx struct {
	Path   []string
	Parent *mc.Snap
	M      *model.State
	Aux    map[string]int
	Action *Action
	Depth  int
}

type job struct {
	parent int
	act    int
}

type result struct {
	enabled []bool
	done    bool
	job     job
	key     [32]byte
	snap    *mc.Snap
	m       *model.State
	aux     map[string]int
	obs     StepObs
	discs   []Disc
}

// Explore runs the level-synchronous BFS.
func (s *Scenario) Explore(opt Options) (Stats, []Violation) {
	t0 := time.Now()
	if opt.Workers <= 0 {
		opt.Workers = runtime.NumCPU()
	}
	if opt.ReplayEvery <= 0 {
		opt.ReplayEvery = 1
	}
	if opt.MaxViol <= 0 {
		opt.MaxViol = 4000
	}
	opt.Budget = ScaleBudget(opt.Budget)
	st := Stats{Scenario: s.Name, Outcomes: map[string]int{}, Foreign: map[string]int{}}
	for _, a := range s.Actions {
		st.Actions = append(st.Actions, a.Name)
	}
	var viols []Violation
	perKind := map[string]int{}
	addViol := func(path []string, d Disc, obs *StepObs) {
		pk := d.Kind + fmt.Sprint(d.Sig)
		perKind[pk]++
		if len(viols) < opt.MaxViol && perKind[pk] <= 400 { // candidates in BFS order (shortest first); Execute keeps the first two per kind that reproduce on fresh replays
			viols = append(viols, Violation{Property: opt.Property, Scenario: s.Name, Path: path, Disc: d, Step: obs})
		}
	}
	classify := func(path []string, discs []Disc, obs *StepObs) (owned bool) {
		for _, d := range discs {
			if strings.HasPrefix(d.Kind, "harness.") || strings.HasPrefix(d.Kind, "model.selfcheck") {
				fmt.Fprintf(os.Stderr, "HARNESS-ERROR %s at %v: %s\n", d.Kind, path, d.Detail)
				os.Exit(2)
			}
			if opt.Owns(d.Kind) {
				addViol(path, d, obs)
				owned = true
			} else {
				if st.Foreign[d.Kind] == 0 && os.Getenv("VERIF_SHOW_FOREIGN") != "" {
					fmt.Fprintf(os.Stderr, "FOREIGN %s at %v: %s\n", d.Kind, path, d.Detail)
				}
				st.Foreign[d.Kind]++
			}
		}
		return
	}

	// workers, each with a private application
	execs := make([]*Exec, opt.Workers)
	var wg sync.WaitGroup
	for i := range execs {
		wg.Add(1)
		go func(i int) { defer wg.Done(); execs[i] = s.NewExec() }(i)
	}
	wg.Wait()

	// root (+ prefix)
	root := execs[0]
	var rootPath []int
	names := func(p []int) []string {
		out := make([]string, len(p))
		for i, a := range p {
			out[i] = s.Actions[a].Name
		}
		return out
	}
	root.SkipVisitSteps = s.skipVisit()
	for _, pn := range s.Prefix {
		a := s.action(pn)
		idx := 0
		for i := range s.Actions {
			if s.Actions[i].Name == pn {
				idx = i
			}
		}
		rootPath = append(rootPath, idx)
		obs, discs := root.Run(a, true)
		st.Transitions++
		st.Blocks += obs.Blocks
		st.Txs += len(obs.Txs)
		st.OracleEvals++
		classify(names(rootPath), discs, &obs)
		if obs.Diverged || obs.Halted {
			st.StoppedBy = "prefix step " + pn + " diverged/halted"
			st.WallS = time.Since(t0).Seconds()
			return st, viols
		}
	}
	classify(nil, root.InitDiscs, nil)
	base := root.W.MakeBase()
	for _, e := range execs {
		e.W.SetBase(base)
	}
	rk := root.Key(s.KeyTimeNs)
	seen := map[[32]byte]bool{rk: true}
	frontier := []*node{{path: rootPath, snap: root.W.Snapshot(), m: root.M.Clone(), aux: cloneAux(root.Aux), key: rk}}
	st.States = 1
	st.Samples = append(st.Samples, names(rootPath))
	newCount := 0
	var liveBytes int64

	for depth := 1; depth <= opt.Depth && len(frontier) > 0; depth++ {
		if len(frontier) > st.MaxFrontier {
			st.MaxFrontier = len(frontier)
		}
		var jobs []job
		for pi, n := range frontier {
			if n.dead {
				continue
			}
			for ai := range s.Actions {
				a := &s.Actions[ai]
				if a.PrefixOnly {
					continue
				}
				if n.m == nil {
					if n.enabled != nil && n.enabled[ai] {
						jobs = append(jobs, job{pi, ai})
					}
					continue
				}
				if a.Enabled == nil || a.Enabled(n.m, n.aux) {
					jobs = append(jobs, job{pi, ai})
				}
			}
		}
		results := make([]result, len(jobs))
		var next int64
		var mu sync.Mutex
		timedOut := false
		// winner[key] = smallest job index that reached key in this level; only (current) winners
		// keep a snapshot, so duplicate successors cost no memory and the outcome is deterministic
		winner := map[[32]byte]int64{}
		var levelBytes int64
		for wi := range execs {
			wg.Add(1)
			go func(e *Exec) {
				defer wg.Done()
				for {
					mu.Lock()
					if opt.Budget > 0 && time.Since(t0) > opt.Budget {
						timedOut = true
					}
					if timedOut || next >= int64(len(jobs)) {
						mu.Unlock()
						return
					}
					ji := next
					next++
					mu.Unlock()
					j := jobs[ji]
					p := frontier[j.parent]
					if e.W.Poisoned { // the previous job halted the chain on this instance
						e = s.NewExec()
						e.W.SetBase(base)
					}
					if opt.FreshJobs {
						e = s.NewExec()
						e.W.SetBase(base)
						e.SkipVisitSteps = s.skipVisit()
						for _, ai := range p.path {
							e.Run(&s.Actions[ai], false)
						}
					} else if p.snap != nil {
						e.W.Restore(p.snap)
						e.M = p.m.Clone()
						e.Aux = cloneAux(p.aux)
					} else {
						e.W.Restore(p.anc.snap)
						e.M = p.anc.m.Clone()
						e.Aux = cloneAux(p.anc.aux)
						visit := e.Visit
						if s.VisitPure {
							e.Visit = nil
						}
						for _, ai := range p.suffix {
							e.Run(&s.Actions[ai], false)
						}
						e.Visit = visit
					}
					e.Degraded = p.degraded
					obs, discs := e.Run(&s.Actions[j.act], !opt.NoOracle)
					e.Degraded = false
					r := result{job: j, obs: obs, discs: discs}
					if !obs.Halted {
						r.key = e.Key(s.KeyTimeNs)
						take := false
						if !seen[r.key] { // seen is only written between levels
							mu.Lock()
							if wj, ok := winner[r.key]; !ok || ji < wj {
								winner[r.key] = ji
								take = true
							}
							mu.Unlock()
						}
						// states of the last level are never expanded, and nothing is kept once the level's
						// snapshots exceed the memory cap (the search then ends with this level)
						if take && depth < opt.Depth && atomic.LoadInt64(&liveBytes)+atomic.LoadInt64(&levelBytes) < memCap {
							r.snap = e.W.Snapshot()
							r.m = e.M
							r.aux = e.Aux
							atomic.AddInt64(&levelBytes, int64(r.snap.Size())+perNodeOverhead)
						} else if take && depth < opt.Depth {
							r.enabled = make([]bool, len(s.Actions))
							for ai := range s.Actions {
								a := &s.Actions[ai]
								r.enabled[ai] = !a.PrefixOnly && (a.Enabled == nil || a.Enabled(e.M, e.Aux))
							}
						}
					}
					r.done = true
					results[ji] = r
				}
			}(execs[wi])
		}
		wg.Wait()
		if timedOut {
			// the transitions of this level that did run were checked like all others; the level is not
			// complete, nothing below it is explored
			st.StoppedBy = fmt.Sprintf("time budget %s during depth %d", opt.Budget, depth)
		}
		var nextFrontier []*node
		for ji, r := range results {
			if !r.done {
				continue
			}
			if timedOut {
				st.PartialLevel++
			}
			p := frontier[r.job.parent]
			if !r.obs.Halted && !seen[r.key] && winner[r.key] != int64(ji) {
				r.snap, r.m, r.aux = nil, nil, nil
				results[ji].snap = nil
			}
			path := append(append([]int{}, p.path...), r.job.act)
			st.Transitions++
			st.Blocks += r.obs.Blocks
			st.Txs += len(r.obs.Txs)
			st.OracleEvals++
			for _, t := range r.obs.Txs {
				k := "?"
				if len(t.Tx.Msgs) > 0 {
					k = model.Flatten(t.Tx.Msgs)[0].Kind
				}
				res := "ok"
				if t.Code != 0 {
					res = "fail"
					if !t.AnteOK {
						res = "ante-fail"
					}
				}
				st.Outcomes[k+"/"+res]++
			}
			obs := r.obs
			if opt.Record != nil {
				opt.Record(names(path), &obs)
			}
			if opt.OnEdge != nil {
				opt.OnEdge(&EdgeCtx{Path: names(path), Parent: p.snap, M: p.m, Aux: p.aux, Action: &s.Actions[r.job.act], Depth: depth})
			}
			classify(names(path), r.discs, &obs)
			if r.obs.Halted {
				st.DeadStates++
				continue
			}
			if seen[r.key] || winner[r.key] != int64(ji) {
				continue
			}
			seen[r.key] = true
			st.States++
			newCount++
			// a state where model and implementation disagree is still expanded, with the model-independent
			// oracles only (what happens to a chain after an anomaly - does it halt? do the books break? - is
			// part of several properties)
			n := &node{path: path, snap: r.snap, m: r.m, aux: r.aux, key: r.key, appHash: r.obs.AppHash, obs: r.obs, degraded: p.degraded || r.obs.Diverged || divergent(r.discs)}
			if n.degraded {
				st.DeadStates++
			}
			n.enabled = r.enabled
			if n.snap == nil && depth < opt.Depth { // lazily re-derived from the nearest ancestor with a snapshot
				if p.snap != nil {
					n.anc, n.suffix = p, []int{r.job.act}
				} else {
					n.anc, n.suffix = p.anc, append(append([]int{}, p.suffix...), r.job.act)
				}
				st.LazyNodes++
			}
			n.obs.Txs = nil // observations are reported with the transition; the node keeps what its expansion needs
			nextFrontier = append(nextFrontier, n)
			if len(st.Samples) < 4 || (depth == opt.Depth && len(st.Samples) < 6) {
				st.Samples = append(st.Samples, names(path))
			}
		}
		if timedOut {
			break
		}
		// conformance replay of new nodes on fresh applications (no restore)
		var toReplay []*node
		for i, n := range nextFrontier {
			if i%opt.ReplayEvery == 0 {
				toReplay = append(toReplay, n)
			}
		}
		errs := make([]string, len(toReplay))
		var ri int64
		for wi := 0; wi < opt.Workers; wi++ {
			wg.Add(1)
			go func() {
				defer wg.Done()
				for {
					mu.Lock()
					if ri >= int64(len(toReplay)) {
						mu.Unlock()
						return
					}
					i := ri
					ri++
					mu.Unlock()
					n := toReplay[i]
					e, obs := s.ReplayPath(n.path, false)
					last := obs[len(obs)-1]
					if last.AppHash != n.appHash {
						ob, _ := json.Marshal(n.obs)
						ob2, _ := json.Marshal(obs)
						errs[i] = fmt.Sprintf("path %v: app hash on fresh replay %s != explored %s\nexplored step: %s\nreplayed: %s", names(n.path), last.AppHash, n.appHash, ob, ob2)
					} else if k := e.Key(s.KeyTimeNs); k != n.key {
						errs[i] = fmt.Sprintf("path %v: state key on fresh replay differs", names(n.path))
					}
				}
			}()
		}
		wg.Wait()
		for i, er := range errs {
			if er != "" {
				// what a fresh application does on this history is the authority: run the oracles there;
				// owned discrepancies of its last step become candidates like any other (Confirm replays them again)
				if !opt.NoOracle {
					pn := names(toReplay[i].path)
					fo, fd := s.ReplayNames(pn)
					if len(fd) == len(pn) {
						classify(pn, fd[len(fd)-1], &fo[len(fo)-1])
					}
				}
				// the explored (re-used, restored) instance and a fresh application disagree on the same
				// history: either the harness restores badly or the application keeps state outside its
				// database. Verdicts of this run then rest on fresh replays only (Confirm); without a
				// confirmed violation the run is reported as unusable (exit 2), never as a pass.
				st.ConformanceMismatches++
				if st.ConformanceMismatches <= 3 {
					fmt.Fprintf(os.Stderr, "CONFORMANCE-MISMATCH: %s\n", firstLine(er))
				}
			}
		}
		st.Replayed += len(toReplay)
		frontier = nextFrontier
		st.DepthCompleted = depth
		// snapshots of this level stay alive while the next one is built; those of the level before are
		// garbage now, except where lazy nodes still point at them (counted with the level that created them)
		liveBytes = levelBytes
		if opt.MaxStates > 0 && st.States >= opt.MaxStates {
			st.StoppedBy = fmt.Sprintf("state cap %d after depth %d", opt.MaxStates, depth)
			break
		}
	}
	live := 0
	for _, n := range frontier {
		if !n.dead {
			live++
		}
	}
	if st.StoppedBy == "" {
		st.Closed = live == 0
		st.Exhaustive = true // everything within the stated depth/caps was enumerated
	}
	if len(frontier) > 0 {
		st.Samples = append(st.Samples, names(frontier[len(frontier)-1].path))
	}
	st.WallS = time.Since(t0).Seconds()
	return st, viols
}

// ScaleBudget multiplies a wall-clock budget by VERIF_BUDGET_MULT (a positive integer; used when the
// machine is shared with other jobs, e.g. while trying seeded changes in parallel). Budgets only ever
// end a run early with exhaustive:false; they never influence a verdict.
func ScaleBudget(d time.Duration) time.Duration {
	if n, err := strconv.Atoi(os.Getenv("VERIF_BUDGET_MULT")); err == nil && n > 0 {
		return d * time.Duration(n)
	}
	return d
}

// divergent: a discrepancy normally ends the expansion of a node (implementation and reference model
// can no longer be compared beyond it). Observations that leave both sides in agreement about the
// state do not: the spendable-balance rise at an order completion (finding F13) is one, a
// parameter query that answers differently from the (agreeing) store is another.
func divergent(ds []Disc) bool {
	for _, d := range ds {
		if d.Kind != "ent.completion_spendable" && !strings.HasPrefix(d.Kind, "params.stale_view.") {
			return true
		}
	}
	return false
}

// memCap bounds the snapshots kept for two adjacent BFS levels (VERIF_MEM_CAP_MB, default 6144). Once it
// is reached, further states keep no snapshot of their own: they are re-derived, when expanded, from the
// nearest ancestor that has one by replaying the letters in between (more time per transition, no more
// memory), so the search goes on until its depth bound or time budget.
var memCap = func() int64 {
	if n, err := strconv.Atoi(os.Getenv("VERIF_MEM_CAP_MB")); err == nil && n > 0 {
		return int64(n) << 20
	}
	return 6144 << 20
}()

const perNodeOverhead = 48 << 10 // model clone, observation, bookkeeping (measured: 30-60 KB)

func cloneAux(a map[string]int) map[string]int {
	o := make(map[string]int, len(a))
	for k, v := range a {
		o[k] = v
	}
	return o
}

// ReplayPath replays a path of action indices on a fresh application without restore.
func (s *Scenario) skipVisit() int {
	if s.VisitAfterPrefix && len(s.Prefix) > 0 {
		return len(s.Prefix) - 1
	}
	return 0
}

func (s *Scenario) ReplayPath(path []int, oracle bool) (*Exec, []StepObs) {
	e := s.NewExec()
	e.SkipVisitSteps = s.skipVisit()
	if !oracle && s.VisitPure {
		e.Visit = nil
	}
	var out []StepObs
	for _, ai := range path {
		obs, _ := e.Run(&s.Actions[ai], oracle)
		out = append(out, obs)
		if obs.Halted {
			break
		}
	}
	return e, out
}

// ReplayNames replays a path given by action names and returns all discrepancies per step.
func (s *Scenario) ReplayNames(path []string) ([]StepObs, [][]Disc) {
	e := s.NewExec()
	e.SkipVisitSteps = s.skipVisit()
	var obsv []StepObs
	var ds [][]Disc
	for _, n := range path {
		obs, d := e.Run(s.action(n), true)
		obsv = append(obsv, obs)
		ds = append(ds, d)
		if obs.Halted {
			break
		}
		if obs.Diverged || divergent(d) {
			e.Degraded = true
		}
	}
	return obsv, ds
}

// Confirm re-derives a violation twice on fresh applications; true iff both reproduce the same discrepancy kind.
func (s *Scenario) Confirm(v Violation) bool {
	for i := 0; i < 2; i++ {
		_, ds := s.ReplayNames(v.Path)
		found := false
		if len(ds) == len(v.Path) {
			for _, d := range ds[len(ds)-1] {
				if d.Kind == v.Disc.Kind && d.Detail == v.Disc.Detail {
					found = true
				}
			}
		}
		if !found {
			return false
		}
	}
	return true
}

func hexKey(k [32]byte) string { return hex.EncodeToString(k[:8]) }

var _ = bytes.Equal
var _ = sort.Strings
var _ = json.Marshal
