package scen

import (
	"fmt"
	"strings"
	"time"

	"verif/mc"
	"verif/model"
)

// annotateHalt adds the facts that identify findings F14 (enterprise denom changed by governance
// while eFUND exists or is about to be minted) and F15 (an approved order overflows the 256-bit supply).
func annotateHalt(e *Exec, d *Disc, tx *model.Tx) {
	if tx != nil {
		annotateTopUp(e, d, tx)
		return
	}
	if !strings.HasPrefix(d.Kind, "panic:") {
		return
	}
	if d.Sig == nil {
		d.Sig = map[string]string{}
	}
	d.Sig["ent_denom_changed_by_governance"] = fmt.Sprint(e.M.Ent.P.Denom != mc.Nund)
	d.Sig["completing_order_overflows_2^256_supply"] = fmt.Sprint(e.M.SupplyOf(mc.Nund).BitLen() > 256)
}

func init() {
	Checks["C14"] = func() *Check {
		return &Check{ID: "C14",
			Runs: []Run{
				{S: withAnnotate(unionScenario(unionOpts{name: "union-halt", extreme: true}), annotateHalt), Opt: map[Tier]Options{
					Quick:    {Depth: 3, Budget: 150 * time.Second, ReplayEvery: 16},
					Thorough: {Depth: 5, Budget: 10 * time.Minute, ReplayEvery: 32, MaxStates: 400000},
				}},
				{S: withAnnotate(unionScenario(unionOpts{name: "union-halt-gov-order", extreme: true, govOrder: true}), annotateHalt), Opt: map[Tier]Options{
					Quick:    {Depth: 3, Budget: 100 * time.Second, ReplayEvery: 16},
					Thorough: {Depth: 5, Budget: 8 * time.Minute, ReplayEvery: 32, MaxStates: 400000},
				}},
				{S: withAnnotate(c14InFlight(), annotateHalt), Opt: map[Tier]Options{
					Quick:    {Depth: 4, Budget: 60 * time.Second, ReplayEvery: 16},
					Thorough: {Depth: 7, Budget: 8 * time.Minute, ReplayEvery: 32, MaxStates: 400000},
				}},
				{S: withAnnotate(c03DecidedThenGov(), annotateHalt), Opt: map[Tier]Options{
					Quick:    {Depth: 3, Budget: 60 * time.Second, ReplayEvery: 16},
					Thorough: {Depth: 5, Budget: 5 * time.Minute, ReplayEvery: 32, MaxStates: 300000},
				}},
				{S: withAnnotate(unionScenario(unionOpts{name: "union-atomic", multi: true}), annotateHalt), Opt: map[Tier]Options{
					Quick:    {Depth: 3, Budget: 100 * time.Second, ReplayEvery: 16},
					Thorough: {Depth: 5, Budget: 8 * time.Minute, ReplayEvery: 32, MaxStates: 500000},
				}},
			},
			// no panic escapes BeginBlock/EndBlock/Commit; a failed transaction leaves the module stores as they were
			Owns:        ownsAny("panic:", "tx.nonatomic"),
			Assumptions: []string{"32-byte (group-policy / ICA) purchasers are not exercised: no key can sign for them without modelling x/group", "Known findings F14/F15 are listed in known_findings.json"},
		}
	}
}

// c14InFlight: everything that can happen to the parties of an order while it travels from its first
// accept through the tally to the minting block (two signers, one accept suffices): late decisions,
// whitelist changes, threshold changes, further orders - one begin blocker after the other.
func c14InFlight() *Scenario {
	far := GenesisTime.Unix() + 1_000_000_000
	g := BaseGenesis(
		mc.AcctSpec{Name: "S1", Coins: Coins(1000, 0)}, mc.AcctSpec{Name: "S2", Coins: Coins(1000, 0)},
		mc.AcctSpec{Name: "P1", Coins: Coins(1000, 0)},
		mc.AcctSpec{Name: "PV", Kind: mc.Continuous, Coins: Coins(1000, 0), Vesting: Coins(1000, 0), VestEnd: far},
	)
	g.EntSigner, g.MinAccept, g.Limit, g.Whitelist = []string{"S1", "S2"}, 1, 100, []string{"P1", "PV"}
	s := &Scenario{Name: "orders-in-flight", Genesis: g, KeyTimeNs: false}
	ms := time.Millisecond
	pre := func(a Action) {
		a.Enabled = nil
		s.Actions = append(s.Actions, a)
		s.Prefix = append(s.Prefix, a.Name)
	}
	pre(raise("P1", 7, 4))
	pre(raise("PV", 11, 4))
	pre(decide("S1", 1, 2))
	wl := func(name, to string, n uint64) Action {
		return Action{Name: name, Dt: ms, Txs: tx1(model.Msg{Kind: model.EntWhitelist, From: "S1", To: to, N: n})}
	}
	for _, a := range []Action{decide("S2", 1, 2), decide("S2", 1, 3), decide("S1", 2, 2), decide("S1", 2, 3), decide("S2", 2, 2)} {
		a.Enabled = nil
		s.Actions = append(s.Actions, a)
	}
	s.Actions = append(s.Actions,
		wl("whitelist(S1,-P1)", "P1", 2), wl("whitelist(S1,+P1)", "P1", 1), wl("whitelist(S1,-PV)", "PV", 2),
		entGov("gov(signers=S1,S2;min=2)", "S1,S2", 2, 100, "gov", 1),
		entGov("gov(signers=S2;min=1)", "S2", 1, 100, "gov", 1),
		Action{Name: "tick", Dt: ms},
		Action{Name: "wait(1m40s)", Dt: 100 * time.Second, Enabled: func(m *model.State, _ map[string]int) bool { return elapsed(m) < 250 }},
		upgradeAct(),
	)
	return s
}

func withAnnotate(s *Scenario, f func(e *Exec, d *Disc, tx *model.Tx)) *Scenario {
	s.Annotate = f
	return s
}
