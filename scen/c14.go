package scen

import (
	"fmt"
	"strings"
	"time"

	"verif/mc"
	"verif/model"
)

// annotateHalt adds the facts that identify findings F14 (enterprise denom changed by governance
// while eFUND exists or is about to be minted) and F15 (an approved order overflows the 256-bit supply).
func annotateHalt(e *Exec, d *Disc, tx *model.Tx) {
	if tx != nil {
		annotateTopUp(e, d, tx)
		return
	}
	if !strings.HasPrefix(d.Kind, "panic:") {
		return
	}
	if d.Sig == nil {
		d.Sig = map[string]string{}
	}
	d.Sig["ent_denom_changed_by_governance"] = fmt.Sprint(e.M.Ent.P.Denom != mc.Nund)
	d.Sig["completing_order_overflows_2^256_supply"] = fmt.Sprint(e.M.SupplyOf(mc.Nund).BitLen() > 256)
}

func init() {
	Checks["C14"] = func() *Check {
		return &Check{ID: "C14",
			Runs: []Run{
				{S: withAnnotate(unionScenario(unionOpts{name: "union-halt", extreme: true}), annotateHalt), Opt: map[Tier]Options{
					Quick:    {Depth: 3, Budget: 150 * time.Second, ReplayEvery: 16},
					Thorough: {Depth: 5, Budget: 10 * time.Minute, ReplayEvery: 32, MaxStates: 400000},
				}},
				{S: withAnnotate(unionScenario(unionOpts{name: "union-halt-gov-order", extreme: true, govOrder: true}), annotateHalt), Opt: map[Tier]Options{
					Quick:    {Depth: 3, Budget: 100 * time.Second, ReplayEvery: 16},
					Thorough: {Depth: 5, Budget: 8 * time.Minute, ReplayEvery: 32, MaxStates: 400000},
				}},
				{S: withAnnotate(unionScenario(unionOpts{name: "union-atomic", multi: true}), annotateHalt), Opt: map[Tier]Options{
					Quick:    {Depth: 3, Budget: 100 * time.Second, ReplayEvery: 16},
					Thorough: {Depth: 5, Budget: 8 * time.Minute, ReplayEvery: 32, MaxStates: 500000},
				}},
			},
			// no panic escapes BeginBlock/EndBlock/Commit; a failed transaction leaves the module stores as they were
			Owns:        ownsAny("panic:", "tx.nonatomic"),
			Assumptions: []string{"32-byte (group-policy / ICA) purchasers are not exercised: no key can sign for them without modelling x/group", "Known findings F14/F15 are listed in known_findings.json"},
		}
	}
}

func withAnnotate(s *Scenario, f func(e *Exec, d *Disc, tx *model.Tx)) *Scenario {
	s.Annotate = f
	return s
}
