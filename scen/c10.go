package scen

import (
	"fmt"
	"math/big"
	"strings"
	"time"

	"verif/mc"
	"verif/model"
)

// streamActions builds the stream alphabet shared by C10/C11/C12.
func streamActions(txDt time.Duration) []Action {
	cr := func(name, from, to, den string, dep int64, rate int64) Action {
		return Action{Name: name, Dt: txDt, Txs: tx1(model.Msg{Kind: model.StrCreate, From: from, To: to, Den: den, Amt: amt(dep), Rate: rate})}
	}
	op := func(name, kind, from, to string, extra model.Msg) Action {
		extra.Kind, extra.From, extra.To = kind, from, to
		return Action{Name: name, Dt: txDt, Txs: tx1(extra)}
	}
	return []Action{
		cr("create(A->R1,600nund@10)", "A", "R1", mc.Nund, 600, 10),
		cr("create(B->R1,90nund@1)", "B", "R1", mc.Nund, 90, 1),
		cr("create(A->R2,121tok@2)", "A", "R2", mc.Tok, 121, 2),
		op("claim(R1<-A)", model.StrClaim, "R1", "A", model.Msg{}),
		op("claim(R1<-B)", model.StrClaim, "R1", "B", model.Msg{}),
		op("claim(R2<-A)", model.StrClaim, "R2", "A", model.Msg{}),
		op("topup(A->R1,65nund)", model.StrTopUp, "A", "R1", model.Msg{Den: mc.Nund, Amt: "65"}),
		op("topup(B->R1,7nund)", model.StrTopUp, "B", "R1", model.Msg{Den: mc.Nund, Amt: "7"}),
		op("update(A->R1,@3)", model.StrUpdate, "A", "R1", model.Msg{Rate: 3}),
		op("cancel(A->R1)", model.StrCancel, "A", "R1", model.Msg{}),
		op("cancel(B->R1)", model.StrCancel, "B", "R1", model.Msg{}),
		op("cancel(A->R2)", model.StrCancel, "A", "R2", model.Msg{}),
	}
}

// aroundZero: operations on stream A->R1 executed in a block whose time is placed relative to the
// stream's advertised deposit-zero time (a fraction of a second before it, and exactly at it).
func aroundZero() []Action {
	var out []Action
	at := func(name string, offNs int64, m model.Msg) Action {
		a := jump(name, func(st *model.State) (int64, int64) {
			z := new(big.Int).Add(st.Str["R1|A"].Z, big.NewInt(offNs))
			q, r := new(big.Int).DivMod(z, big.NewInt(1_000_000_000), new(big.Int))
			return q.Int64(), r.Int64()
		})
		a.Txs = tx1(m)
		a.Enabled = func(st *model.State, _ map[string]int) bool {
			s, ok := st.Str["R1|A"]
			return ok && new(big.Int).Add(s.Z, big.NewInt(offNs)).Cmp(st.Now) > 0
		}
		return a
	}
	for _, off := range []struct {
		n  string
		ns int64
	}{{"Z-0.3s", -300_000_000}, {"Z", 0}} {
		out = append(out,
			at("topup(A->R1,65nund)@"+off.n, off.ns, model.Msg{Kind: model.StrTopUp, From: "A", To: "R1", Den: mc.Nund, Amt: "65"}),
			at("claim(R1<-A)@"+off.n, off.ns, model.Msg{Kind: model.StrClaim, From: "R1", To: "A"}),
			at("cancel(A->R1)@"+off.n, off.ns, model.Msg{Kind: model.StrCancel, From: "A", To: "R1"}),
			at("update(A->R1,@3)@"+off.n, off.ns, model.Msg{Kind: model.StrUpdate, From: "A", To: "R1", Rate: 3}),
		)
	}
	return out
}

func timeSteps(horizonS int64, dts ...time.Duration) []Action {
	var out []Action
	for _, d := range dts {
		out = append(out, Action{Name: "wait(" + d.String() + ")", Dt: d, Enabled: func(m *model.State, _ map[string]int) bool { return elapsed(m) < horizonS }})
	}
	return out
}

func govOnce(name, kind string, params any) Action {
	return Action{Name: name, Gov: &GovSpec{Kind: kind, Params: params}, Count: "gov", Enabled: func(_ *model.State, aux map[string]int) bool { return aux["gov"] < 1 }}
}

func isStreamKind(k string) bool { return strings.HasPrefix(k, "str.") && k != model.StrParams }

// streamConservation is the C10 per-transaction oracle. It only uses OBSERVED balance movements
// (and the fee rate in force), never the timing model: whatever amount a stream operation
// releases, coins are conserved, only the parties of the stream move, the fee collector gets
// floor(released x rate), and per stream deposited = paid + fees + refunded + remaining.
func streamConservation(e *Exec, obs *TxObs, _, _ map[string][]mc.KV) []Disc {
	var out []Disc
	tx := obs.Tx
	msgs := model.Flatten(tx.Msgs)
	denoms := map[string]bool{}
	for _, m := range []map[string]map[string]*big.Int{e.PreBal, e.PostBal} {
		for _, bm := range m {
			for d := range bm {
				denoms[d] = true
			}
		}
	}
	var sm *model.Msg
	for i := range msgs {
		if isStreamKind(msgs[i].Kind) {
			sm = &msgs[i]
		}
	}
	if obs.Code != 0 || sm == nil {
		for d := range denoms {
			if e.Delta(model.ModStr, d).Sign() != 0 {
				out = append(out, disc("str.conserve", "stream escrow moved by %s %s in a transaction that is not a successful stream operation: %s", e.Delta(model.ModStr, d), d, txJSON(tx)))
			}
		}
		return out
	}
	if len(msgs) != 1 {
		return out // the per-stream attribution below is defined for single-operation transactions
	}
	sender, recv := sm.From, sm.To
	if sm.Kind == model.StrClaim {
		sender, recv = sm.To, sm.From
	}
	key := recv + "|" + sender
	allowed := map[string]bool{sender: true, recv: true, model.ModStr: true, model.ModFee: true}
	den := ""
	for d := range denoms {
		sum := new(big.Int)
		for _, n := range e.Tracked {
			dl := e.Delta(n, d)
			sum.Add(sum, dl)
			if dl.Sign() != 0 {
				if !allowed[n] {
					out = append(out, disc("str.conserve", "%s moved the balance of %s by %s %s, which is not a party of the stream", sm.Kind, n, dl, d))
				}
				den = d
			}
		}
		if sum.Sign() != 0 {
			out = append(out, disc("str.conserve", "%s created or destroyed %s %s", sm.Kind, sum, d))
		}
	}
	if den == "" {
		den = sm.Den
	}
	if den == "" {
		if st, ok := e.PreM.Str[key]; ok {
			den = st.Denom
		}
	}
	dRecv, dFee, dSender, dEsc := e.Delta(recv, den), e.Delta(model.ModFee, den), e.Delta(sender, den), e.Delta(model.ModStr, den)
	released := new(big.Int).Add(dRecv, dFee)
	if released.Sign() < 0 || dFee.Sign() < 0 {
		out = append(out, disc("str.conserve", "%s took coins from the receiver or the fee collector (receiver %s, collector %s)", sm.Kind, dRecv, dFee))
	}
	// fee = floor(released x rate)
	f := new(big.Rat).Mul(new(big.Rat).SetInt(released), e.PreM.FeeRat())
	wantFee := new(big.Int).Div(f.Num(), f.Denom())
	if released.Sign() >= 0 && dFee.Cmp(wantFee) != 0 {
		out = append(out, disc("str.feesplit", "%s released %s %s: fee collector got %s, floor(released x %s) = %s", sm.Kind, released, den, dFee, e.PreM.FeeNum, wantFee))
	}
	// observed ledger
	if e.M.ObsLedger == nil {
		e.M.ObsLedger = map[string]*model.Ledger{}
	}
	lg := e.M.ObsLedger[key]
	if lg == nil || sm.Kind == model.StrCreate {
		lg = &model.Ledger{Deposited: new(big.Int), Paid: new(big.Int), Fees: new(big.Int), Refunded: new(big.Int)}
		e.M.ObsLedger[key] = lg
	}
	lg.Paid.Add(lg.Paid, dRecv)
	lg.Fees.Add(lg.Fees, dFee)
	switch sm.Kind {
	case model.StrCreate, model.StrTopUp:
		lg.Deposited.Add(lg.Deposited, sm.AmtI())
		if new(big.Int).Neg(dSender).Cmp(sm.AmtI()) != 0 {
			out = append(out, disc("str.conserve", "%s of %s debited the sender by %s", sm.Kind, sm.AmtI(), new(big.Int).Neg(dSender)))
		}
	case model.StrCancel:
		lg.Refunded.Add(lg.Refunded, dSender)
	default:
		if dSender.Sign() != 0 {
			out = append(out, disc("str.conserve", "%s moved the sender's balance by %s", sm.Kind, dSender))
		}
	}
	remaining := new(big.Int)
	if st, ok := e.W.App.StreamKeeper.GetStream(e.W.Ctx(), AddrOf(e.W, recv), AddrOf(e.W, sender)); ok {
		remaining = st.Deposit.Amount.BigInt()
	}
	sum := new(big.Int).Add(lg.Paid, lg.Fees)
	sum.Add(sum, lg.Refunded).Add(sum, remaining)
	if sum.Cmp(lg.Deposited) != 0 {
		out = append(out, disc("str.ledger", "stream %s after %s: deposited %s != paid %s + fees %s + refunded %s + remaining %s", key, sm.Kind, lg.Deposited, lg.Paid, lg.Fees, lg.Refunded, remaining))
	}
	_ = dEsc
	return out
}

// streamTiming is the C11 per-transaction oracle: the total released by a stream operation and
// the refund of a cancel equal what the reference schedule (A.4) prescribes.
func streamTiming(e *Exec, obs *TxObs, _, _ map[string][]mc.KV) []Disc {
	var out []Disc
	msgs := model.Flatten(obs.Tx.Msgs)
	if obs.Code != 0 || len(msgs) != 1 || !isStreamKind(msgs[0].Kind) || obs.Pred != "ok" {
		return nil
	}
	sm := msgs[0]
	sender, recv := sm.From, sm.To
	if sm.Kind == model.StrClaim {
		sender, recv = sm.To, sm.From
	}
	den := sm.Den
	if st, ok := e.PreM.Str[recv+"|"+sender]; ok {
		den = st.Denom
	}
	released := new(big.Int).Add(e.Delta(recv, den), e.Delta(model.ModFee, den))
	want := e.M.LastRelease
	if want == nil {
		want = new(big.Int)
	}
	if released.Cmp(want) != 0 {
		out = append(out, Disc{Kind: "str.release_amount", Detail: fmt.Sprintf("%s on stream %s|%s at t=%s ns released %s %s; the agreed schedule releases %s (before: %s)", sm.Kind, recv, sender, e.M.Now, released, den, want, streamStr(e.PreM.Str[recv+"|"+sender]))})
	}
	if sm.Kind == model.StrCancel {
		ref := e.Delta(sender, den)
		wr := e.M.LastRefund
		if wr == nil {
			wr = new(big.Int)
		}
		if ref.Cmp(wr) != 0 {
			out = append(out, disc("str.refund_amount", "cancel of stream %s|%s refunded %s %s; the unreleased remainder is %s", recv, sender, ref, den, wr))
		}
	}
	return out
}

func streamStr(s *model.Stream) string {
	if s == nil {
		return "none"
	}
	return fmt.Sprintf("{D %s r %d L %s Z %s}", s.D, s.R, s.L, s.Z)
}

func streamGenesis() mc.GenesisSpec {
	return BaseGenesis(mc.AcctSpec{Name: "A", Coins: Rich()}, mc.AcctSpec{Name: "B", Coins: Rich()}, mc.AcctSpec{Name: "R1", Coins: Coins(1000, 0)}, mc.AcctSpec{Name: "R2", Coins: Coins(1000, 0)})
}

func c10Scenario() *Scenario {
	s := &Scenario{Name: "streams", Genesis: streamGenesis(), KeyTimeNs: true, AfterTx: streamConservation, Tracked: []string{"L32:M"}}
	s.Actions = streamActions(time.Second)
	s.Actions = append(s.Actions,
		Action{Name: "send(A->escrow,5nund)", Dt: time.Second, Txs: tx1(model.Msg{Kind: model.BankSend, From: "A", To: model.ModStr, Den: mc.Nund, Amt: "5"})},
		Action{Name: "create(A->STREAM-ESCROW,upper-case spelling)", Dt: time.Second, Txs: tx1(model.Msg{Kind: model.StrCreate, From: "A", To: model.ModStr, Den: mc.Nund, Amt: "90", Rate: 1, Up: true})},
		// a receiver whose address is not 20 bytes long (module-derived, group-policy, interchain accounts)
		Action{Name: "create(B->L32:M,90nund@1)", Dt: time.Second, Txs: tx1(model.Msg{Kind: model.StrCreate, From: "B", To: "L32:M", Den: mc.Nund, Amt: "90", Rate: 1})},
		Action{Name: "cancel(B->L32:M)", Dt: time.Second, Txs: tx1(model.Msg{Kind: model.StrCancel, From: "B", To: "L32:M"})},
		govOnce("gov(fee=0)", model.StrParams, "0.000000000000000000"),
		govOnce("gov(fee=0.5)", model.StrParams, "0.500000000000000000"),
		govOnce("gov(fee=1)", model.StrParams, "1.000000000000000000"),
		failing(govOnce("gov(fee=1)+failing-msg", model.StrParams, "1.000000000000000000")),
		Action{Name: "sim(claim(R1<-A))", Dt: time.Second, Sim: tx1(model.Msg{Kind: model.StrClaim, From: "R1", To: "A"})},
	)
	s.Actions = append(s.Actions, timeSteps(800, 700*time.Millisecond, 30*time.Second, 61*time.Second, 700*time.Second)...)
	s.Actions = append(s.Actions, aroundZero()...)
	return s
}

// streamSameBlock: all ordered pairs of operations on one stream in the same block (0 s gap).
func streamSameBlock(name string, after func(e *Exec, obs *TxObs, _, _ map[string][]mc.KV) []Disc) *Scenario {
	s := &Scenario{Name: name, Genesis: streamGenesis(), KeyTimeNs: true, AfterTx: after}
	op := func(n string, m model.Msg) Action { return Action{Name: n, Dt: time.Second, Txs: tx1(m)} }
	core := []Action{
		op("create(A->R1,600nund@10)", model.Msg{Kind: model.StrCreate, From: "A", To: "R1", Den: mc.Nund, Amt: "600", Rate: 10}),
		op("claim(R1<-A)", model.Msg{Kind: model.StrClaim, From: "R1", To: "A"}),
		op("topup(A->R1,65nund)", model.Msg{Kind: model.StrTopUp, From: "A", To: "R1", Den: mc.Nund, Amt: "65"}),
		op("update(A->R1,@3)", model.Msg{Kind: model.StrUpdate, From: "A", To: "R1", Rate: 3}),
		op("cancel(A->R1)", model.Msg{Kind: model.StrCancel, From: "A", To: "R1"}),
	}
	s.Actions = append(s.Actions, core...)
	s.Actions = append(s.Actions, pairLetters(core...)...)
	// operations the chain must refuse (each rule of the agreement at its boundary)
	s.Actions = append(s.Actions,
		op("create(A->A,600nund@10)", model.Msg{Kind: model.StrCreate, From: "A", To: "A", Den: mc.Nund, Amt: "600", Rate: 10}),
		op("create(A->R2,0nund@1)", model.Msg{Kind: model.StrCreate, From: "A", To: "R2", Den: mc.Nund, Amt: "0", Rate: 1}),
		op("create(A->R2,600nund@0)", model.Msg{Kind: model.StrCreate, From: "A", To: "R2", Den: mc.Nund, Amt: "600", Rate: 0}),
		op("create(A->R2,119nund@2:59s)", model.Msg{Kind: model.StrCreate, From: "A", To: "R2", Den: mc.Nund, Amt: "119", Rate: 2}),
		op("create(A->R2,120nund@2:60s)", model.Msg{Kind: model.StrCreate, From: "A", To: "R2", Den: mc.Nund, Amt: "120", Rate: 2}),
		op("topup(A->R1,5tok)", model.Msg{Kind: model.StrTopUp, From: "A", To: "R1", Den: mc.Tok, Amt: "5"}),
		op("topup(A->R1,0nund)", model.Msg{Kind: model.StrTopUp, From: "A", To: "R1", Den: mc.Nund, Amt: "0"}),
		op("update(A->R1,@0)", model.Msg{Kind: model.StrUpdate, From: "A", To: "R1", Rate: 0}),
	)
	s.Actions = append(s.Actions, govOnce("gov(fee=0.5)", model.StrParams, "0.500000000000000000"))
	s.Actions = append(s.Actions, timeSteps(400, 700*time.Millisecond, 30*time.Second, 61*time.Second)...)
	return s
}

func init() {
	Checks["C10"] = func() *Check {
		return &Check{
			ID: "C10",
			Runs: []Run{{S: c10Scenario(), Opt: map[Tier]Options{
				Quick:    {Depth: 4, Budget: 150 * time.Second, ReplayEvery: 16},
				Thorough: {Depth: 7, Budget: 15 * time.Minute, ReplayEvery: 8, MaxStates: 400000},
			}}, {S: streamSameBlock("streams-same-block", streamConservation), Opt: map[Tier]Options{
				Quick:    {Depth: 3, Budget: 60 * time.Second, ReplayEvery: 16},
				Thorough: {Depth: 5, Budget: 6 * time.Minute, ReplayEvery: 8, MaxStates: 300000},
			}}},
			// escrow backing at block boundaries, conservation / fee split / ledger from observed movements, registered invariant,
			// and no transfer into the escrow account
			Owns:        ownsAny("str.escrow", "str.conserve", "str.feesplit", "str.ledger", "invariant:stream", "tx.accept_unexpected:bank.send:blocked_recipient", "tx.accept_unexpected:str.create:blocked_recipient"),
			Assumptions: []string{"Cosmos-SDK bank/auth/gov semantics are the trusted substrate", "bounds: alphabet and depth as listed in coverage.scenarios", "transactions carry zero fees, so the fee collector's delta inside a transaction is the validator fee"},
		}
	}
}
