package scen

import (
	"time"

	"verif/mc"
	"verif/model"
)

// streamActions builds the stream alphabet shared by C10/C11/C12.
func streamActions(txDt time.Duration) []Action {
	cr := func(name, from, to, den string, dep int64, rate int64) Action {
		return Action{Name: name, Dt: txDt, Txs: tx1(model.Msg{Kind: model.StrCreate, From: from, To: to, Den: den, Amt: amt(dep), Rate: rate})}
	}
	op := func(name, kind, from, to string, extra model.Msg) Action {
		extra.Kind, extra.From, extra.To = kind, from, to
		return Action{Name: name, Dt: txDt, Txs: tx1(extra)}
	}
	return []Action{
		cr("create(A->R1,600nund@10)", "A", "R1", mc.Nund, 600, 10),
		cr("create(B->R1,90nund@1)", "B", "R1", mc.Nund, 90, 1),
		cr("create(A->R2,121tok@2)", "A", "R2", mc.Tok, 121, 2),
		op("claim(R1<-A)", model.StrClaim, "R1", "A", model.Msg{}),
		op("claim(R1<-B)", model.StrClaim, "R1", "B", model.Msg{}),
		op("claim(R2<-A)", model.StrClaim, "R2", "A", model.Msg{}),
		op("topup(A->R1,65nund)", model.StrTopUp, "A", "R1", model.Msg{Den: mc.Nund, Amt: "65"}),
		op("topup(B->R1,7nund)", model.StrTopUp, "B", "R1", model.Msg{Den: mc.Nund, Amt: "7"}),
		op("update(A->R1,@3)", model.StrUpdate, "A", "R1", model.Msg{Rate: 3}),
		op("cancel(A->R1)", model.StrCancel, "A", "R1", model.Msg{}),
		op("cancel(B->R1)", model.StrCancel, "B", "R1", model.Msg{}),
		op("cancel(A->R2)", model.StrCancel, "A", "R2", model.Msg{}),
	}
}

func timeSteps(horizonS int64, dts ...time.Duration) []Action {
	var out []Action
	for _, d := range dts {
		out = append(out, Action{Name: "wait(" + d.String() + ")", Dt: d, Enabled: func(m *model.State, _ map[string]int) bool { return elapsed(m) < horizonS }})
	}
	return out
}

func govOnce(name, kind string, params any) Action {
	return Action{Name: name, Gov: &GovSpec{Kind: kind, Params: params}, Count: "gov", Enabled: func(_ *model.State, aux map[string]int) bool { return aux["gov"] < 1 }}
}

func c10Scenario() *Scenario {
	s := &Scenario{
		Name:      "streams",
		Genesis:   BaseGenesis(mc.AcctSpec{Name: "A", Coins: Rich()}, mc.AcctSpec{Name: "B", Coins: Rich()}, mc.AcctSpec{Name: "R1", Coins: Coins(1000, 0)}, mc.AcctSpec{Name: "R2", Coins: Coins(1000, 0)}),
		KeyTimeNs: true,
	}
	s.Actions = streamActions(time.Second)
	s.Actions = append(s.Actions,
		Action{Name: "send(A->escrow,5nund)", Dt: time.Second, Txs: tx1(model.Msg{Kind: model.BankSend, From: "A", To: model.ModStr, Den: mc.Nund, Amt: "5"})},
		govOnce("gov(fee=0)", model.StrParams, "0.000000000000000000"),
		govOnce("gov(fee=0.5)", model.StrParams, "0.500000000000000000"),
		govOnce("gov(fee=1)", model.StrParams, "1.000000000000000000"),
	)
	s.Actions = append(s.Actions, timeSteps(800, 30*time.Second, 61*time.Second, 700*time.Second)...)
	return s
}

func init() {
	Checks["C10"] = func() *Check {
		return &Check{
			ID: "C10",
			Runs: []Run{{S: c10Scenario(), Opt: map[Tier]Options{
				Quick:    {Depth: 4, Budget: 150 * time.Second, ReplayEvery: 4},
				Thorough: {Depth: 7, Budget: 25 * time.Minute, ReplayEvery: 8, MaxStates: 400000},
			}}},
			// escrow backing, conservation (balances of every party incl. fee collector around each tx), registered invariant
			Owns:        ownsAny("str.escrow", "str.deposit", "bal:", "invariant:stream", "tx.accept_unexpected:bank.send:blocked_recipient", "supply"),
			Assumptions: []string{"Cosmos-SDK bank/auth/gov semantics are the trusted substrate", "bounds: alphabet and depth as listed in coverage.scenarios"},
		}
	}
}
