package scen

import (
	"fmt"
	"math/big"
	"time"

	"verif/mc"
	"verif/model"
)

const maxProtoTimeS = int64(253402300799) // 9999-12-31T23:59:59Z, the last instant a protobuf timestamp can carry

// annotateTopUp adds the facts that identify finding F9 (a top-up whose new deposit-zero time
// cannot be represented) to a rejected top-up.
func annotateTopUp(e *Exec, d *Disc, tx *model.Tx) {
	if tx == nil || (d.Kind != "tx.reject_unexpected:str.topup" && d.Kind != "tx.panic") || e.PreM == nil {
		return
	}
	m := model.Flatten(tx.Msgs)[0]
	if m.Kind == model.StrCreate && d.Kind == "tx.panic" && m.Rate > 0 {
		// the same unrepresentable time at creation: block time + floor(deposit / rate) seconds
		z := new(big.Int).Add(big.NewInt(e.M.NowS()), new(big.Int).Div(m.AmtI(), big.NewInt(m.Rate)))
		if d.Sig == nil {
			d.Sig = map[string]string{}
		}
		d.Sig["new_zero_time_after_year_9999"] = fmt.Sprint(z.Cmp(big.NewInt(maxProtoTimeS)) > 0)
		return
	}
	if m.Kind != model.StrTopUp {
		return
	}
	st, ok := e.PreM.Str[m.To+"|"+m.From]
	if !ok {
		return
	}
	ext := new(big.Int).Div(m.AmtI(), big.NewInt(st.R))
	base := new(big.Int).Div(st.Z, big.NewInt(1_000_000_000))
	nowS := big.NewInt(e.M.NowS())
	if nowS.Cmp(base) >= 0 {
		base = nowS
	}
	z := new(big.Int).Add(base, ext)
	if d.Sig == nil {
		d.Sig = map[string]string{}
	}
	d.Sig["new_zero_time_after_year_9999"] = fmt.Sprint(z.Cmp(big.NewInt(maxProtoTimeS)) > 0)
	d.Sig["extension_ge_2^63_s"] = fmt.Sprint(!ext.IsInt64())
}

func c12Scenario() *Scenario {
	big110 := pow2(110)
	g := BaseGenesis(
		mc.AcctSpec{Name: "A", Coins: Coins(1000, 0).Add(coin(mc.Tok, big110))},
		mc.AcctSpec{Name: "B", Coins: Coins(1000, 0).Add(coin(mc.Tok, big110))},
		mc.AcctSpec{Name: "R1", Coins: Coins(1000, 0)}, mc.AcctSpec{Name: "R2", Coins: Coins(1000, 0)},
		mc.AcctSpec{Name: "C", Coins: Coins(1000, 0).Add(coin(mc.Tok, big.NewInt(5000)))},
	)
	s := &Scenario{Name: "stranded", Genesis: g, KeyTimeNs: true, Annotate: annotateTopUp}
	op := func(name string, m model.Msg) Action { return Action{Name: name, Dt: time.Second, Txs: tx1(m)} }
	e21 := "1000000000000000000000"
	type sd struct {
		name, from, to, amt string
		rate                int64
	}
	streams := []sd{
		{"S1", "A", "R1", e21, 1_000_000_000_000},
		{"S2", "B", "R1", pow2(100).String(), 1<<63 - 1},
		{"S3", "A", "R2", pow2(63).String(), 1 << 40},
	}
	for _, x := range streams {
		x := x
		key := x.to + "|" + x.from
		has := func(m *model.State, _ map[string]int) bool { _, ok := m.Str[key]; return ok }
		s.Actions = append(s.Actions,
			op("create("+x.name+")", model.Msg{Kind: model.StrCreate, From: x.from, To: x.to, Den: mc.Tok, Amt: x.amt, Rate: x.rate}),
			op("claim("+x.name+")", model.Msg{Kind: model.StrClaim, From: x.to, To: x.from}),
			op("cancel("+x.name+")", model.Msg{Kind: model.StrCancel, From: x.from, To: x.to}),
			op("topup("+x.name+",1tok)", model.Msg{Kind: model.StrTopUp, From: x.from, To: x.to, Den: mc.Tok, Amt: "1"}),
			op("topup("+x.name+",again)", model.Msg{Kind: model.StrTopUp, From: x.from, To: x.to, Den: mc.Tok, Amt: x.amt}),
		)
		for _, off := range []int64{-1, 0, 1} {
			off := off
			a := jump(fmt.Sprintf("goto(Z(%s)%+ds)", x.name, off), func(m *model.State) (int64, int64) { sec, n, _ := zeroTimeOf(m, key); return sec + off, n })
			a.Enabled = func(m *model.State, aux map[string]int) bool {
				sec, _, ok := zeroTimeOf(m, key)
				return ok && has(m, aux) && sec+off > m.NowS()
			}
			s.Actions = append(s.Actions, a)
		}
	}
	// a sender of modest means who puts everything it holds into its stream: the top-up of exactly the whole
	// balance is affordable and must go through, and the stream stays claimable and cancellable afterwards
	{
		key := "R2|C"
		has := func(m *model.State, _ map[string]int) bool { _, ok := m.Str[key]; return ok }
		s.Actions = append(s.Actions,
			op("create(S4)", model.Msg{Kind: model.StrCreate, From: "C", To: "R2", Den: mc.Tok, Amt: "3000", Rate: 1}),
			op("claim(S4)", model.Msg{Kind: model.StrClaim, From: "R2", To: "C"}),
			op("cancel(S4)", model.Msg{Kind: model.StrCancel, From: "C", To: "R2"}),
			Action{Name: "topup(S4,everything C holds)", Dt: time.Second,
				Txs: func(m *model.State) []model.Tx {
					return []model.Tx{{Msgs: []model.Msg{{Kind: model.StrTopUp, From: "C", To: "R2", Den: mc.Tok, Amt: m.BalOf("C", mc.Tok).String()}}}}
				},
				Enabled: func(m *model.State, aux map[string]int) bool { return has(m, aux) && m.BalOf("C", mc.Tok).Sign() > 0 }},
		)
	}
	// a receiver that can never be paid (a blocked module account), in both spellings of its address: such a
	// stream must not come into being - its deposit could only be stranded
	s.Actions = append(s.Actions,
		op("create(A->fee_collector)", model.Msg{Kind: model.StrCreate, From: "A", To: model.ModFee, Den: mc.Tok, Amt: "6000", Rate: 1}),
		op("create(A->FEE_COLLECTOR,upper-case spelling)", model.Msg{Kind: model.StrCreate, From: "A", To: model.ModFee, Den: mc.Tok, Amt: "6000", Rate: 1, Up: true}),
		op("create(A->R2,upper-case spelling)", model.Msg{Kind: model.StrCreate, From: "A", To: "R2", Den: mc.Tok, Amt: "6000", Rate: 1, Up: true}),
	)
	s.Actions = append(s.Actions,
		govOnce("gov(fee=1)", model.StrParams, "1.000000000000000000"),
		govOnce("gov(fee=1e-18)", model.StrParams, "0.000000000000000001"),
		govOnce("gov(fee=0.5)", model.StrParams, "0.500000000000000000"),
	)
	return s
}

func init() {
	Checks["C12"] = func() *Check {
		return &Check{
			ID: "C12",
			Runs: []Run{{S: c12Scenario(), Opt: map[Tier]Options{
				Quick:    {Depth: 4, Budget: 150 * time.Second, ReplayEvery: 16},
				Thorough: {Depth: 6, Budget: 12 * time.Minute, ReplayEvery: 8, MaxStates: 300000},
			}}},
			Owns: ownsAny("tx.reject_unexpected:str.claim", "tx.reject_unexpected:str.cancel", "tx.reject_unexpected:str.topup", "tx.panic", "tx.accept_unexpected:str.create:blocked_recipient",
				"tx.entitled_signer_refused:str.claim", "tx.entitled_signer_refused:str.cancel", "tx.entitled_signer_refused:str.topup"),
			Extra:       c12Enum,
			Assumptions: []string{"only streams whose creation the chain accepted are judged", "numeric domain covered on the boundary grid listed in coverage.grid"},
		}
	}
}
