package scen

import (
	"fmt"
	"math/big"
	"time"

	sdkmath "cosmossdk.io/math"
	sdk "github.com/cosmos/cosmos-sdk/types"
	streamtypes "github.com/unification-com/mainchain/x/stream/types"

	"verif/mc"
)

// ---- Engine B for C11/C12: the pure stream arithmetic on the complete boundary grid --------------

var (
	gridDeposits = []*big.Int{big.NewInt(1), big.NewInt(59), big.NewInt(60), big.NewInt(61), pow2(31), new(big.Int).Sub(pow2(63), big.NewInt(1)), pow2(63), pow2(64), new(big.Int).Exp(big.NewInt(10), big.NewInt(21), nil), pow2(128), pow2(200)}
	gridRates    = []int64{1, 2, 59, 60, 1 << 31, 1 << 62, 1<<63 - 1}
	gridFees     = []string{"0.000000000000000000", "0.000000000000000001", "0.010000000000000000", "0.500000000000000000", "0.999999999999999999", "1.000000000000000000"}
)

type elapsedCase struct {
	name string
	sec  int64
	nsec int64
}

var gridElapsed = []elapsedCase{
	{"0", 0, 0}, {"1ns", 0, 1}, {"999999999ns", 0, 999_999_999}, {"1s", 1, 0}, {"59s", 59, 0}, {"60s", 60, 0},
	{"2^24s+0.999999999s", 1 << 24, 999_999_999}, {"292y-1s", y292 - 1, 0}, {"292y+1s", y292 + 1, 0}, {"1e10s", 10_000_000_000, 0},
}

func streamGrid(prop string, ev *Evidence) []Violation {
	var viols []Violation
	hist := map[string]int{}
	bad := func(kind string, sig map[string]string, f string, a ...any) {
		hist["violation/"+kind]++
		if len(viols) < 400 {
			viols = append(viols, Violation{Property: prop, Scenario: "stream-arithmetic-grid", Path: []string{kind}, Disc: Disc{Kind: "streamfn." + kind, Detail: fmt.Sprintf(f, a...), Sig: sig}})
		}
	}
	evals, distinct := 0, 0
	last := time.Unix(1_700_000_000, 250_000_000).UTC()
	for _, D := range gridDeposits {
		dep := sdk.Coin{Denom: mc.Tok, Amount: sdkmath.NewIntFromBigInt(D)}
		for _, r := range gridRates {
			// duration
			wantDur := new(big.Int).Div(D, big.NewInt(r))
			var gotDur int64
			durPanic := ""
			func() {
				defer func() {
					if p := recover(); p != nil {
						durPanic = fmt.Sprint(p)
					}
				}()
				gotDur = streamtypes.CalculateDuration(dep, r)
			}()
			evals++
			distinct++
			switch {
			case durPanic != "":
				if prop == "C12" {
					bad("duration_panic", map[string]string{"duration_ge_2^63_s": fmt.Sprint(!wantDur.IsInt64())}, "CalculateDuration(%s, %d) panicked: %s (exact duration %s s)", D, r, firstLine(durPanic), wantDur)
				}
			case wantDur.IsInt64() && gotDur != wantDur.Int64():
				if prop == "C11" {
					bad("duration", nil, "CalculateDuration(%s, %d) = %d, floor(deposit/rate) = %s", D, r, gotDur, wantDur)
				}
			default:
				hist["duration/ok"]++
			}
			if prop == "C11" && wantDur.IsInt64() && wantDur.Int64() <= 200_000_000_000 {
				z := streamtypes.AddSeconds(last, wantDur.Int64())
				want := new(big.Int).Add(timeNs(last), new(big.Int).Mul(wantDur, big.NewInt(1_000_000_000)))
				evals++
				if timeNs(z).Cmp(want) != 0 {
					bad("zerotime", nil, "zero time for funding at %s plus %s s computed as %s", last, wantDur, z)
				}
			}
			for _, el := range gridElapsed {
				now := time.Unix(last.Unix()+el.sec, int64(last.Nanosecond())+el.nsec).UTC()
				for zi, zero := range []time.Time{now.Add(-time.Second), now, now.Add(time.Second), time.Unix(now.Unix()+40_000_000_000, 0).UTC()} {
					evals++
					distinct++
					var claim, rem sdk.Coin
					pan := ""
					func() {
						defer func() {
							if p := recover(); p != nil {
								pan = fmt.Sprint(p)
							}
						}()
						claim, rem = streamtypes.CalculateAmountToClaim(now, zero, last, dep, r)
					}()
					if pan != "" {
						bad("claim_panic", nil, "CalculateAmountToClaim(now=last+%s, zero case %d, D=%s, r=%d) panicked: %s", el.name, zi, D, r, firstLine(pan))
						continue
					}
					want := new(big.Int).Set(D)
					if now.Before(zero) {
						x := new(big.Int).Mul(big.NewInt(el.sec), big.NewInt(r)) // whole seconds: nsec part of elapsed < 1 s by construction
						if x.Cmp(D) < 0 {
							want = x
						}
					}
					if prop == "C11" {
						if claim.Amount.BigInt().Cmp(want) != 0 || new(big.Int).Add(claim.Amount.BigInt(), rem.Amount.BigInt()).Cmp(D) != 0 {
							bad("claim_amount", nil, "CalculateAmountToClaim(elapsed %s, zero case %d, D=%s, r=%d) = (%s, remaining %s); the schedule releases %s", el.name, zi, D, r, claim.Amount, rem.Amount, want)
						} else {
							hist["claim/ok"]++
						}
					}
				}
			}
		}
		if prop == "C12" {
			for _, fr := range gridFees {
				evals++
				distinct++
				var recv, fee sdk.Coin
				pan := ""
				func() {
					defer func() {
						if p := recover(); p != nil {
							pan = fmt.Sprint(p)
						}
					}()
					recv, fee = streamtypes.CalculateValidatorFee(sdk.MustNewDecFromStr(fr), dep)
				}()
				if pan != "" {
					bad("fee_panic", nil, "CalculateValidatorFee(%s, %s) panicked: %s", fr, D, firstLine(pan))
					continue
				}
				rat, _ := new(big.Rat).SetString(fr)
				f := new(big.Rat).Mul(new(big.Rat).SetInt(D), rat)
				wf := new(big.Int).Div(f.Num(), f.Denom())
				if fee.Amount.BigInt().Cmp(wf) != 0 || new(big.Int).Add(recv.Amount.BigInt(), fee.Amount.BigInt()).Cmp(D) != 0 {
					bad("fee_amount", nil, "CalculateValidatorFee(%s, %s) = (receiver %s, fee %s); floor(amount x rate) = %s", fr, D, recv.Amount, fee.Amount, wf)
				} else {
					hist["fee/ok"]++
				}
			}
		}
	}
	// one violation per kind+signature
	seen := map[string]bool{}
	var kept []Violation
	for _, v := range viols {
		k := v.Disc.Kind + fmt.Sprint(v.Disc.Sig)
		if !seen[k] {
			seen[k] = true
			kept = append(kept, v)
		}
	}
	ev.Coverage["grid_evaluations"] = evals
	ev.Coverage["grid_distinct"] = distinct
	ev.Coverage["grid_outcomes"] = hist
	ev.Coverage["grid"] = fmt.Sprintf("deposits %v x rates %v x elapsed {0,1ns,999999999ns,1s,59s,60s,2^24s+0.999999999s,292y-1s,292y+1s,1e10s} x zero time {before, at, after now, far future}; fee rates %v; pure functions of x/stream/types against math/big, complete product", gridDeposits, gridRates, gridFees)
	return kept
}

func c11Enum(t Tier, ev *Evidence) []Violation { return streamGrid("C11", ev) }
func c12Enum(t Tier, ev *Evidence) []Violation { return streamGrid("C12", ev) }
