package scen

import (
	"fmt"
	"math/big"
	"strings"
	"time"

	undtypes "github.com/unification-com/mainchain/types"
)

// ---- C19: FUND/nund conversion against exact rational arithmetic, complete grid -----------------

const (
	intPos  = 21
	fracPos = 9
)

// digitsToFund renders a 30-digit pattern (21 integer + 9 fractional digits) as a decimal string.
// trim: drop trailing fractional zeros (and the point if nothing is left).
func digitsToFund(d []byte, trim bool) string {
	ip := strings.TrimLeft(string(d[:intPos]), "0")
	if ip == "" {
		ip = "0"
	}
	fp := string(d[intPos:])
	if trim {
		fp = strings.TrimRight(fp, "0")
	}
	if fp == "" {
		return ip
	}
	return ip + "." + fp
}

func c19Patterns(yield func(d []byte)) {
	n := intPos + fracPos
	zero := func() []byte { return []byte(strings.Repeat("0", n)) }
	// one and two non-zero digits, all digit values, anywhere
	for i := 0; i < n; i++ {
		for a := byte('1'); a <= '9'; a++ {
			d := zero()
			d[i] = a
			yield(d)
			for j := i + 1; j < n; j++ {
				for b := byte('1'); b <= '9'; b++ {
					e := append([]byte{}, d...)
					e[j] = b
					yield(e)
				}
			}
		}
	}
	// three non-zero digits from {1,5,9}
	dig := []byte{'1', '5', '9'}
	for i := 0; i < n; i++ {
		for j := i + 1; j < n; j++ {
			for k := j + 1; k < n; k++ {
				for _, a := range dig {
					for _, b := range dig {
						for _, c := range dig {
							d := zero()
							d[i], d[j], d[k] = a, b, c
							yield(d)
						}
					}
				}
			}
		}
	}
	// 10^k +- one unit in the last place, all-nines of every length, fixed pattern for every digit-count pair
	for k := 0; k < n; k++ {
		d := zero()
		d[k] = '1'
		e := append([]byte{}, d...)
		e[n-1] = '1'
		yield(e)
		f := zero()
		for x := k + 1; x < n; x++ {
			f[x] = '9'
		}
		yield(f)
	}
	pat := "123456789012345678901234567890"
	for il := 1; il <= intPos; il++ {
		for fl := 0; fl <= fracPos; fl++ {
			d := zero()
			copy(d[intPos-il:intPos], pat[:il])
			copy(d[intPos:intPos+fl], pat[il:il+fl])
			yield(d)
		}
	}
	yield(zero())
}

func c19Extra(t Tier, ev *Evidence) []Violation {
	t0 := time.Now()
	var viols []Violation
	evals, distinct := 0, 0
	hist := map[string]int{}
	seen := map[string]bool{}
	var samples []any
	e9 := big.NewInt(1_000_000_000)
	fail := func(kind, in, got, want string) {
		hist["mismatch/"+kind]++
		if len(viols) < 6 {
			viols = append(viols, Violation{Property: "C19", Scenario: "denom-grid", Path: []string{kind, in},
				Disc: Disc{Kind: "denom." + kind, Detail: fmt.Sprintf("%s(%q) = %q, exact result %q", kind, in, got, want)}})
		}
	}
	call := func(amount, from, to string) (res string, perr string) {
		defer func() {
			if p := recover(); p != nil {
				perr = fmt.Sprint(p)
			}
		}()
		r, err := undtypes.ConvertUndDenomination(amount, from, to)
		if err != nil {
			return "", err.Error()
		}
		return r, ""
	}
	c19Patterns(func(d []byte) {
		key := string(d)
		if seen[key] {
			return
		}
		seen[key] = true
		distinct++
		// exact values
		all, _ := new(big.Int).SetString(key, 10) // the 30 digits as an integer = FUND amount x 10^9 = nund
		wantNund := all.String() + "nund"
		q, r := new(big.Int).QuoRem(all, e9, new(big.Int))
		wantFund := fmt.Sprintf("%s.%09d", q.String(), r.Int64()) + "fund"
		// the same number in every spelling a user may type: trimmed, with all nine fractional digits,
		// with leading zeros, with some (not all) trailing fractional zeros, with a bare ".0"
		trimmed, full := digitsToFund(d, true), digitsToFund(d, false)
		spellings := []string{trimmed, full, "0" + trimmed, "000" + full}
		if i := strings.IndexByte(trimmed, '.'); i < 0 {
			spellings = append(spellings, trimmed+".0", trimmed+".00000")
		} else if len(trimmed)-i-1 < fracPos-1 {
			spellings = append(spellings, trimmed+"0")
		}
		for _, in := range spellings {
			evals++
			got, perr := call(in, "fund", "nund")
			if perr != "" {
				fail("fund_to_nund", in, "error: "+perr, wantNund)
				continue
			}
			if got != wantNund {
				fail("fund_to_nund", in, got, wantNund)
				continue
			}
			hist["exact/fund_to_nund"]++
			// there and back
			back, perr := call(strings.TrimSuffix(got, "nund"), "nund", "fund")
			evals++
			if perr != "" || back != wantFund {
				fail("round_trip_fund", in, back+perr, wantFund)
			} else {
				hist["exact/round_trip_fund"]++
			}
		}
		// integral nund amount -> FUND with nine decimals, and back
		in := all.String()
		evals++
		got, perr := call(in, "nund", "fund")
		if perr != "" || got != wantFund {
			fail("nund_to_fund", in, got+perr, wantFund)
		} else {
			hist["exact/nund_to_fund"]++
			back, perr := call(strings.TrimSuffix(got, "fund"), "fund", "nund")
			evals++
			if perr != "" || back != wantNund {
				fail("round_trip_nund", in, back+perr, wantNund)
			} else {
				hist["exact/round_trip_nund"]++
			}
		}
		if len(samples) < 5 && distinct%40000 == 1 {
			samples = append(samples, map[string]string{"fund": digitsToFund(d, true), "nund": all.String()})
		}
	})
	ev.Level = "exploration"
	ev.Coverage["evaluations"] = evals
	ev.Coverage["distinct_nontrivial"] = distinct
	ev.Coverage["outcomes"] = hist
	ev.Coverage["exhaustive"] = true
	ev.Coverage["rule"] = "complete grid of decimal amounts with 21 integer and 9 fractional digit positions: every placement of one or two non-zero digits (all digit values), every placement of three non-zero digits from {1,5,9}, 10^k plus one unit in the last place, all-nines of every length, a fixed digit pattern for every (integer digits 1..21, fractional digits 0..9) pair; each converted FUND->nund (in every spelling: trimmed, 9-digit form, leading zeros, partial trailing zeros, bare .0), integral nund->FUND, and both round trips, against math/big; distinct = distinct digit patterns"
	ev.Coverage["samples"] = samples
	_ = t0
	return viols
}

func init() {
	Checks["C19"] = func() *Check {
		return &Check{ID: "C19", Level: "exploration", Extra: c19Extra, Owns: ownsAny("denom."),
			Assumptions: []string{"fractional nund inputs are not judged: their exact FUND value is not representable in nine decimals and the statement defines nothing for them", "inputs are plain decimal strings (no exponent notation)"}}
	}
}
