package scen

import (
	"bufio"
	"bytes"
	"encoding/json"
	"fmt"
	"os"
	"os/exec"
	"path/filepath"
	"strings"
	"sync"
	"time"

	dbm "github.com/cometbft/cometbft-db"

	"verif/mc"
	"verif/model"
)

// c01Scenario: one succeeding and one failing representative of every custom message type, a
// panicking transaction, multi-message transactions, the BEACON submit_time=0 paths (top level and
// nested), two over-limit purchases for different ids in one transaction (makes the ante map loop
// observable), governance updates, time steps.
func c01Scenario() *Scenario {
	s := unionScenario(unionOpts{name: "determinism", multi: true})
	ms := time.Millisecond
	one := func(name string, tx model.Tx) Action {
		return Action{Name: name, Dt: ms, Txs: func(*model.State) []model.Tx { return []model.Tx{tx} }}
	}
	s.Actions = append(s.Actions,
		one("brec(W1,#1,submit_time=0)", model.Tx{Msgs: []model.Msg{{Kind: model.BcnRec, From: "W1", ID: 1, S: []string{"0xzero"}, T: 0}}, Fee: fee(5)}),
		// a submit time far ahead of any node's clock (the only other input that can be compared with "now")
		one("brec(W1,#1,submit_time=year 3000)", model.Tx{Msgs: []model.Msg{{Kind: model.BcnRec, From: "W1", ID: 1, S: []string{"0xfuture"}, T: 32_503_680_000}}, Fee: fee(5)}),
		Action{Name: "grant(W1->O,brec+wpur+bpur)", Dt: ms, Txs: func(*model.State) []model.Tx {
			return []model.Tx{{Msgs: []model.Msg{{Kind: model.AuthzGrant, From: "W1", To: "O", URL: model.BcnRec}, {Kind: model.AuthzGrant, From: "W1", To: "O", URL: model.WrkPur}, {Kind: model.AuthzGrant, From: "W1", To: "O", URL: model.BcnPur}}}}
		}, Enabled: func(m *model.State, _ map[string]int) bool { return !m.Grants["W1|O|"+model.BcnRec] }},
		one("exec(O,brec(W1,#1,submit_time=0))", model.Tx{Msgs: []model.Msg{{Kind: model.AuthzExec, From: "O", Inner: []model.Msg{{Kind: model.BcnRec, From: "W1", ID: 1, S: []string{"0xzero"}, T: 0}}}}}),
		one("wpur(W1,#1,9)+wpur(W1,#2,9)+bpur(W1,#1,9)", model.Tx{Msgs: []model.Msg{{Kind: model.WrkPur, From: "W1", ID: 1, N: 9}, {Kind: model.WrkPur, From: "W1", ID: 2, N: 9}, {Kind: model.BcnPur, From: "W1", ID: 1, N: 9}}, Fee: fee(27 + 27 + 63)}),
		one("wpur(W1,#2,9)+wpur(W1,#1,9)", model.Tx{Msgs: []model.Msg{{Kind: model.WrkPur, From: "W1", ID: 2, N: 9}, {Kind: model.WrkPur, From: "W1", ID: 1, N: 9}}, Fee: fee(54)}),
		// two BEACON ids in one over-limit purchase, both orders (the BEACON ante loop)
		one("bpur(W1,#1,9)+bpur(W1,#2,9)", model.Tx{Msgs: []model.Msg{{Kind: model.BcnPur, From: "W1", ID: 1, N: 9}, {Kind: model.BcnPur, From: "W1", ID: 2, N: 9}}, Fee: fee(126)}),
		one("bpur(W1,#2,9)+bpur(W1,#1,1)", model.Tx{Msgs: []model.Msg{{Kind: model.BcnPur, From: "W1", ID: 2, N: 9}, {Kind: model.BcnPur, From: "W1", ID: 1, N: 1}}, Fee: fee(70)}),
		one("wpur(W1,#1,1)", model.Tx{Msgs: []model.Msg{{Kind: model.WrkPur, From: "W1", ID: 1, N: 1}}, Fee: fee(3)}),
		one("create(A->R1,overflow)", model.Tx{Msgs: []model.Msg{{Kind: model.StrCreate, From: "A", To: "R1", Den: mc.Nund, Amt: pow2(200).String(), Rate: 1}}}),
		one("wrec(O,#1,next)", model.Tx{Msgs: []model.Msg{{Kind: model.WrkRec, From: "O", ID: 1, H: 77, S: []string{"0xb", "", "", "", ""}}}, Fee: fee(2)}),
		one("topup(A->R1,65nund)", model.Tx{Msgs: []model.Msg{{Kind: model.StrTopUp, From: "A", To: "R1", Den: mc.Nund, Amt: "65"}}}),
		one("update(A->R1,@3)", model.Tx{Msgs: []model.Msg{{Kind: model.StrUpdate, From: "A", To: "R1", Rate: 3}}}),
		one("whitelist(S1,+O)", model.Tx{Msgs: []model.Msg{{Kind: model.EntWhitelist, From: "S1", To: "O", N: 1}}}),
		regAct(model.WrkReg, "W1", []string{"chain-b", "Chain b", "0xgen", "geth"}, 2),
	)
	return s
}

type c01Rec struct {
	Path   string  `json:"p"`
	Height int     `json:"h"`
	Hash   string  `json:"hash"`
	Txs    []c01Tx `json:"txs,omitempty"`
	Halted bool    `json:"halted,omitempty"`
}
type c01Tx struct {
	Code      uint32 `json:"c"`
	Data      string `json:"d,omitempty"`
	GasWanted int64  `json:"gw"`
	GasUsed   int64  `json:"gu"`
}

func recOf(path []string, obs *StepObs) c01Rec {
	r := c01Rec{Path: strings.Join(path, " | "), Height: len(path), Hash: obs.AppHash, Halted: obs.Halted}
	for _, t := range obs.Txs {
		r.Txs = append(r.Txs, c01Tx{t.Code, t.Data, t.GasWanted, t.GasUsed})
	}
	return r
}

func c01Depth(t Tier) int {
	if t == Thorough {
		return 3
	}
	return 2
}

// C01Worker runs the deterministic exploration in this process (whose environment carries the
// twin configuration) and writes one record per transition.
func C01Worker(tier Tier, out string) int {
	f, err := os.Create(out)
	must(err)
	defer f.Close()
	bw := bufio.NewWriter(f)
	defer bw.Flush()
	enc := json.NewEncoder(bw)
	sc := c01Scenario()
	st, _ := sc.Explore(Options{Depth: c01Depth(tier), NoOracle: true, ReplayEvery: 1 << 30, Owns: func(string) bool { return false }, Property: "C01",
		Record: func(path []string, obs *StepObs) { enc.Encode(recOf(path, obs)) }})
	fmt.Fprintf(os.Stderr, "[C01 worker %s] states=%d transitions=%d depth=%d wall=%.1fs\n", os.Getenv("VERIF_TWIN"), st.States, st.Transitions, st.DepthCompleted, st.WallS)
	return 0
}

// C01Replay replays the given paths from genesis on a GoLevelDB on disk (no snapshots).
func C01Replay(in, out, dir string) int {
	sc := c01Scenario()
	fin, err := os.Open(in)
	must(err)
	defer fin.Close()
	var paths []string
	rd := bufio.NewScanner(fin)
	rd.Buffer(make([]byte, 1<<20), 1<<26)
	for rd.Scan() {
		paths = append(paths, rd.Text())
	}
	recs := make([]c01Rec, len(paths))
	var wg sync.WaitGroup
	var mu sync.Mutex
	next := 0
	for wi := 0; wi < 16; wi++ {
		wg.Add(1)
		go func(wi int) {
			defer wg.Done()
			for {
				mu.Lock()
				i := next
				next++
				mu.Unlock()
				if i >= len(paths) {
					return
				}
				d := filepath.Join(dir, fmt.Sprintf("db-%d-%d", wi, i))
				db, err := dbm.NewGoLevelDB("app", d)
				must(err)
				w, err := mc.NewWorldOn(db, sc.Genesis)
				must(err)
				tr := sc.tracked()
				for _, n := range tr {
					if !strings.HasPrefix(n, "mod:") {
						w.Acct(n)
					}
				}
				e := &Exec{W: w, Tracked: tr, Aux: map[string]int{}}
				e.M = InitModel(w, tr)
				names := strings.Split(paths[i], " | ")
				var last StepObs
				for _, n := range names {
					last, _ = e.Run(sc.action(n), false)
					if last.Halted {
						break
					}
				}
				recs[i] = recOf(names, &last)
				db.Close()
				os.RemoveAll(d)
			}
		}(wi)
	}
	wg.Wait()
	f, err := os.Create(out)
	must(err)
	defer f.Close()
	enc := json.NewEncoder(f)
	for _, r := range recs {
		enc.Encode(r)
	}
	return 0
}

func readRecs(p string) (map[string]c01Rec, []string, error) {
	f, err := os.Open(p)
	if err != nil {
		return nil, nil, err
	}
	defer f.Close()
	m := map[string]c01Rec{}
	var order []string
	rd := bufio.NewScanner(f)
	rd.Buffer(make([]byte, 1<<20), 1<<26)
	for rd.Scan() {
		var r c01Rec
		if err := json.Unmarshal(rd.Bytes(), &r); err != nil {
			return nil, nil, err
		}
		m[r.Path] = r
		order = append(order, r.Path)
	}
	return m, order, nil
}

type twin struct {
	Name string
	Env  []string
	Mode string // explore | replay
}

func c01Extra(t Tier, ev *Evidence) []Violation {
	var viols []Violation
	t0 := time.Now()
	work := filepath.Join(VerifDir(), ".work", "c01")
	os.RemoveAll(work)
	must(os.MkdirAll(work, 0o755))
	defer os.RemoveAll(work)
	inst := filepath.Join(VerifDir(), "bin", "vcheck-inst")
	if _, err := os.Stat(inst); err != nil {
		fmt.Fprintln(os.Stderr, "HARNESS-ERROR C01 needs the instrumented binary bin/vcheck-inst (built by run.sh)")
		os.Exit(2)
	}
	y := int64(365 * 24 * 3600)
	twins := []twin{
		{"P0", []string{"VERIF_CLOCK_OFFSET_S=0", "VERIF_MAP_ORDER=0", "GOMAXPROCS=16"}, "explore"},
		{"P1", []string{fmt.Sprintf("VERIF_CLOCK_OFFSET_S=%d", 9*y), "VERIF_MAP_ORDER=1", "GOMAXPROCS=1"}, "explore"},
		{"P2", []string{fmt.Sprintf("VERIF_CLOCK_OFFSET_S=%d", -3*y), "VERIF_MAP_ORDER=2", "GOMAXPROCS=4"}, "explore"},
	}
	if t == Thorough {
		twins = append(twins, twin{"P3", []string{fmt.Sprintf("VERIF_CLOCK_OFFSET_S=%d", 40*y), "VERIF_MAP_ORDER=3", "GOMAXPROCS=8"}, "explore"})
	}
	var wg sync.WaitGroup
	errs := make([]error, len(twins))
	for i, tw := range twins {
		wg.Add(1)
		go func(i int, tw twin) {
			defer wg.Done()
			cmd := exec.Command(inst, "c01worker", string(t), filepath.Join(work, tw.Name+".jsonl"))
			cmd.Env = append(append(os.Environ(), tw.Env...), "VERIF_TWIN="+tw.Name)
			cmd.Stderr = os.Stderr
			errs[i] = cmd.Run()
		}(i, tw)
	}
	wg.Wait()
	for i, e := range errs {
		if e != nil {
			fmt.Fprintf(os.Stderr, "HARNESS-ERROR C01 twin %s failed: %v\n", twins[i].Name, e)
			os.Exit(2)
		}
	}
	ref, order, err := readRecs(filepath.Join(work, "P0.jsonl"))
	must(err)
	// twin on GoLevelDB replays from genesis: every path up to depth 1, every 8th beyond
	var sel []string
	for i, p := range order {
		if ref[p].Height <= 1 || i%8 == 0 {
			sel = append(sel, p)
		}
	}
	must(os.WriteFile(filepath.Join(work, "paths.txt"), []byte(strings.Join(sel, "\n")), 0o644))
	cmd := exec.Command(inst, "c01replay", filepath.Join(work, "paths.txt"), filepath.Join(work, "P9.jsonl"), filepath.Join(work, "ldb"))
	cmd.Env = append(os.Environ(), fmt.Sprintf("VERIF_CLOCK_OFFSET_S=%d", 17*y), "VERIF_MAP_ORDER=1", "GOMAXPROCS=16", "VERIF_TWIN=P9-goleveldb")
	cmd.Stderr = os.Stderr
	if err := cmd.Run(); err != nil {
		fmt.Fprintf(os.Stderr, "HARNESS-ERROR C01 goleveldb twin failed: %v\n", err)
		os.Exit(2)
	}
	compared := 0
	diff := func(name string, other map[string]c01Rec, full bool) {
		if full && len(other) != len(ref) {
			viols = append(viols, Violation{Property: "C01", Scenario: "determinism", Path: []string{"twin " + name},
				Disc: Disc{Kind: "determinism.paths", Detail: fmt.Sprintf("twin %s explored %d transitions, P0 explored %d: the two executions diverged", name, len(other), len(ref))}})
		}
		seenSig := map[string]bool{}
		for _, p := range order {
			o, ok := other[p]
			if !ok {
				continue
			}
			compared++
			r := ref[p]
			a, _ := json.Marshal(r)
			b, _ := json.Marshal(o)
			if bytes.Equal(a, b) {
				continue
			}
			// classify the difference
			onlyGas := r.Hash == o.Hash && r.Halted == o.Halted && len(r.Txs) == len(o.Txs)
			early := onlyGas
			if onlyGas {
				for i := range r.Txs {
					x, y := r.Txs[i], o.Txs[i]
					if x.Code != y.Code || x.Data != y.Data || x.GasWanted != y.GasWanted {
						onlyGas, early = false, false
					}
					if x.GasUsed != y.GasUsed && !(x.Code != 0 && x.GasWanted == 0) {
						early = false
					}
				}
			}
			sig := map[string]string{"only_gas_used_differs": fmt.Sprint(onlyGas), "failed_before_ante_handler": fmt.Sprint(early), "twin_kind": strings.SplitN(name, "-", 2)[0][:1]}
			if name == "P9-goleveldb" {
				sig["twin_kind"] = "long-running-process-vs-restarted"
			} else {
				sig["twin_kind"] = "environment"
			}
			k := fmt.Sprint(sig)
			if seenSig[k] {
				continue
			}
			seenSig[k] = true
			viols = append(viols, Violation{Property: "C01", Scenario: "determinism", Path: strings.Split(p, " | "),
				Disc: Disc{Kind: "determinism.twin", Detail: fmt.Sprintf("same history, different result: P0 %s vs %s %s", a, name, b), Sig: sig}})
		}
	}
	for _, tw := range twins[1:] {
		o, _, err := readRecs(filepath.Join(work, tw.Name+".jsonl"))
		must(err)
		diff(tw.Name, o, true)
	}
	o9, _, err := readRecs(filepath.Join(work, "P9.jsonl"))
	must(err)
	diff("P9-goleveldb", o9, false)

	// ---- crash / restart enumeration (this process, uninstrumented code path is identical)
	crashPoints, crashEdges := 0, 0
	cv := c01Crash(t, &crashPoints, &crashEdges)
	viols = append(viols, cv...)

	sites, _ := os.ReadFile(filepath.Join(VerifDir(), ".work", "overlay", "sites.json"))
	var sj any
	json.Unmarshal(sites, &sj)
	ev.Coverage["states"] = len(ref)
	ev.Coverage["transitions"] = len(ref) * (len(twins) + 1)
	ev.Coverage["traces_validated_against_impl"] = compared
	ev.Coverage["twins"] = twins
	ev.Coverage["goleveldb_replays"] = len(o9)
	ev.Coverage["crash_points"] = crashPoints
	ev.Coverage["crash_edges"] = crashEdges
	ev.Coverage["instrumented_sites"] = sj
	ev.Coverage["evaluations"] = compared + crashPoints
	ev.Coverage["distinct_nontrivial"] = len(ref)
	ev.Coverage["exhaustive"] = true
	ev.Coverage["rule"] = fmt.Sprintf("BFS over the determinism alphabet to depth %d (de-duplicated), executed independently in %d OS processes with different clock offsets, map iteration orders and GOMAXPROCS (instrumented build: every time.Now/time.Since and map range on consensus paths goes through verifhook), plus a GoLevelDB-on-disk twin replaying paths from genesis; records (app hash, per-tx code/data/gas_wanted/gas_used) joined on the path; crash enumeration: for every edge up to the crash depth, every pre-commit stop point and every prefix of the logged Commit write batches is reopened on a fresh application and must recover", c01Depth(t), len(twins))
	var samples []any
	for i, p := range order {
		if i%(len(order)/3+1) == 0 {
			samples = append(samples, ref[p])
		}
	}
	ev.Coverage["samples"] = samples
	_ = t0
	return viols
}

// c01Crash: stop points and Commit write-log prefixes.
func c01Crash(t Tier, points, edges *int) []Violation {
	var viols []Violation
	sc := c01Scenario()
	depth := 1
	if t == Thorough {
		depth = 2
	}
	var list []*EdgeCtx
	sc.Explore(Options{Depth: depth, NoOracle: true, ReplayEvery: 1 << 30, Owns: func(string) bool { return false }, Property: "C01",
		OnEdge: func(e *EdgeCtx) {
			if e.Action.Gov == nil {
				list = append(list, e)
			}
		}})
	var mu sync.Mutex
	var wg sync.WaitGroup
	next := 0
	add := func(path []string, f string, a ...any) {
		mu.Lock()
		if len(viols) < 6 {
			viols = append(viols, Violation{Property: "C01", Scenario: "determinism", Path: path, Disc: Disc{Kind: "restart", Detail: fmt.Sprintf(f, a...)}})
		}
		mu.Unlock()
	}
	seenSig := map[string]bool{}
	addD := func(path []string, d Disc) {
		mu.Lock()
		k := d.Kind + fmt.Sprint(d.Sig)
		if !seenSig[k] {
			seenSig[k] = true
			viols = append(viols, Violation{Property: "C01", Scenario: "determinism", Path: path, Disc: d})
		}
		mu.Unlock()
	}
	for wi := 0; wi < 16; wi++ {
		wg.Add(1)
		go func() {
			defer wg.Done()
			for {
				mu.Lock()
				i := next
				next++
				mu.Unlock()
				if i >= len(list) {
					return
				}
				n := crashEdge(sc, list[i], add, addD)
				mu.Lock()
				*points += n
				*edges++
				mu.Unlock()
			}
		}()
	}
	wg.Wait()
	return viols
}

func openOn(content map[string][]byte) (*mc.World, *mc.LogDB, error) {
	db := dbm.NewMemDB()
	for k, v := range content {
		if err := db.Set([]byte(k), v); err != nil {
			return nil, nil, err
		}
	}
	ldb := mc.NewLogDB(db)
	var w *mc.World
	var err error
	func() {
		defer func() {
			if p := recover(); p != nil {
				err = fmt.Errorf("panic while opening the application: %v", firstLine(fmt.Sprint(p)))
			}
		}()
		w = &mc.World{DB: ldb, Accts: map[string]*mc.Acct{}, ByAddr: map[string]string{}}
		w.App = mc.NewAppOn(ldb, false, false)
		if e := w.App.LoadLatestVersion(); e != nil {
			err = fmt.Errorf("LoadLatestVersion: %v", e)
		}
	}()
	return w, ldb, err
}

func crashEdge(sc *Scenario, ed *EdgeCtx, add func([]string, string, ...any), addD func([]string, Disc)) int {
	points := 0
	d0 := ed.Parent.Materialize()
	// never-stopped reference run on a logged database
	w, ldb, err := openOn(d0)
	if err != nil {
		add(ed.Path, "cannot reopen the parent state: %v", err)
		return 0
	}
	w.Spec = sc.Genesis
	w.Height, w.Time = ed.Parent.Height, ed.Parent.Time
	for _, n := range sc.tracked() {
		if !strings.HasPrefix(n, "mod:") {
			w.Acct(n)
		}
	}
	parentHash := fmt.Sprintf("%X", w.App.LastCommitID().Hash)
	ldb.Logging = true
	e := &Exec{W: w, M: ed.M.Clone(), Aux: cloneAux(ed.Aux), Tracked: sc.tracked()}
	at := w.Time.Add(ed.Action.Dt)
	if ed.Action.NextTime != nil {
		at = ed.Action.NextTime(e.M)
	}
	var txs []model.Tx
	if ed.Action.Txs != nil {
		txs = ed.Action.Txs(e.M)
	}
	if _, halted := e.beginBlockAt(at); halted {
		return 0 // C14's subject
	}
	var lastTxs []c01Tx
	for _, tx := range txs {
		o, _, _ := e.deliver(tx)
		lastTxs = append(lastTxs, c01Tx{o.Code, o.Data, o.GasWanted, o.GasUsed})
	}
	raw := w.BlockTxs
	var refTx []c01Tx
	for _, ev := range e.TxEvents {
		_ = ev
	}
	refTx = append(refTx, lastTxs...)
	if _, pan := w.EndBlock(); pan != "" {
		return 0
	}
	if len(ldb.Log) != 0 {
		add(ed.Path, "the database was written %d times before Commit (a node stopped inside the block would restart from a partly written state)", len(ldb.Log))
	}
	hashH, pan := w.Commit()
	if pan != "" {
		return 0
	}
	log := ldb.Log
	ldb.Logging = false
	wantH := fmt.Sprintf("%X", hashH)
	br := w.RunBlock(time.Millisecond, nil)
	wantH1 := fmt.Sprintf("%X", br.AppHash)

	// ---- state kept outside the database: a node that has been running for a while (and has executed
	// other transactions since it started, failing ones included) must answer this block exactly like
	// the node above, which was started from the same database content a moment ago. The long-running
	// twin is polluted deterministically: from the parent state it passes every letter's transactions through
	// CheckTx and Simulate and executes the letter once (restoring the database in place after each), then
	// the block under test.
	points += hiddenState(sc, ed, d0, at, raw, refTx, wantH, addD)

	// stop points before Commit (after BeginBlock, after the k-th DeliverTx, after EndBlock) leave the
	// database untouched (checked above), so they all restart from d0; prefix k of the commit log
	// models a stop inside Commit after k write batches
	for k := -1 - len(raw) - 1; k <= len(log); k++ {
		content := map[string][]byte{}
		for kk, v := range d0 {
			content[kk] = v
		}
		stop := "before Commit"
		if k > 0 {
			stop = fmt.Sprintf("after %d of %d Commit write batches", k, len(log))
			for _, ops := range log[:k] {
				for _, op := range ops {
					if op.Del {
						delete(content, string(op.K))
					} else {
						content[string(op.K)] = op.V
					}
				}
			}
		} else if k < 0 {
			stop = fmt.Sprintf("inside the block (stop point %d of %d before Commit)", k+len(raw)+3, len(raw)+2)
		}
		points++
		w2, _, err := openOn(content)
		if err != nil {
			add(ed.Path, "restart %s: %v", stop, err)
			continue
		}
		h := w2.App.LastBlockHeight()
		got := fmt.Sprintf("%X", w2.App.LastCommitID().Hash)
		switch h {
		case ed.Parent.Height:
			if got != parentHash {
				add(ed.Path, "restart %s: resumes at height %d with hash %s, the committed hash of that height is %s", stop, h, got, parentHash)
				continue
			}
			// replay the interrupted block
			w2.Height, w2.Time = ed.Parent.Height, ed.Parent.Time
			var res mc.BlockRes
			func() {
				defer func() {
					if p := recover(); p != nil {
						res.Panic = fmt.Sprint(p)
					}
				}()
				res = w2.RunBlock(at.Sub(ed.Parent.Time), raw)
			}()
			if res.Panic != "" {
				add(ed.Path, "restart %s: replaying the interrupted block fails: %s", stop, firstLine(res.Panic))
				continue
			}
			if g := fmt.Sprintf("%X", res.AppHash); g != wantH {
				add(ed.Path, "restart %s: replaying the interrupted block gives hash %s, the node that never stopped has %s", stop, g, wantH)
				continue
			}
			// the restarted node and the node that never stopped are two nodes executing the same block
			for i, r := range res.Txs {
				got := c01Tx{r.Code, fmt.Sprintf("%x", r.Data), r.GasWanted, r.GasUsed}
				if i < len(refTx) && got != refTx[i] {
					onlyGas := got.Code == refTx[i].Code && got.Data == refTx[i].Data && got.GasWanted == refTx[i].GasWanted
					addD(ed.Path, Disc{Kind: "determinism.restart_result", Detail: fmt.Sprintf("restart %s: tx %d of the replayed block returns %+v, on the node that never stopped %+v", stop, i, got, refTx[i]),
						Sig: map[string]string{"only_gas_used_differs": fmt.Sprint(onlyGas), "failed_before_ante_handler": fmt.Sprint(got.Code != 0 && got.GasWanted == 0)}})
					break
				}
			}
		case ed.Parent.Height + 1:
			if got != wantH {
				add(ed.Path, "restart %s: resumes at height %d with hash %s, the node that never stopped has %s", stop, h, got, wantH)
				continue
			}
			w2.Height, w2.Time = h, at
		default:
			add(ed.Path, "restart %s: resumes at height %d (last committed heights are %d / %d)", stop, h, ed.Parent.Height, ed.Parent.Height+1)
			continue
		}
		var res mc.BlockRes
		func() {
			defer func() {
				if p := recover(); p != nil {
					res.Panic = fmt.Sprint(p)
				}
			}()
			res = w2.RunBlock(time.Millisecond, nil)
		}()
		if g := fmt.Sprintf("%X", res.AppHash); res.Panic != "" || g != wantH1 {
			add(ed.Path, "restart %s: the block after recovery gives %s %s, the node that never stopped has %s", stop, g, firstLine(res.Panic), wantH1)
		}
	}
	return points
}

func hiddenState(sc *Scenario, ed *EdgeCtx, d0 map[string][]byte, at time.Time, raw [][]byte, refTx []c01Tx, wantH string, addD func([]string, Disc)) int {
	open := func() *Exec {
		w, _, err := openOn(d0)
		if err != nil {
			return nil
		}
		w.Spec = sc.Genesis
		w.Height, w.Time = ed.Parent.Height, ed.Parent.Time
		for _, n := range sc.tracked() {
			if !strings.HasPrefix(n, "mod:") {
				w.Acct(n)
			}
		}
		return &Exec{W: w, M: ed.M.Clone(), Aux: cloneAux(ed.Aux), Tracked: sc.tracked()}
	}
	e := open()
	if e == nil {
		return 0
	}
	snap := e.W.Snapshot()
	ran := 0
	for i := range sc.Actions {
		a := &sc.Actions[i]
		if a.PrefixOnly || (a.Enabled != nil && !a.Enabled(e.M, e.Aux)) {
			continue
		}
		// what reaches a node outside blocks: the same transactions through mempool admission and gas simulation
		if a.Txs != nil {
			for _, tx := range a.Txs(e.M) {
				if bz, err := e.W.Sign(BuildTx(e.W, tx)); err == nil {
					e.W.CheckTx(bz)
					e.W.Simulate(bz)
				}
			}
		}
		e.Run(a, false)
		ran++
		if e.W.Poisoned {
			if e = open(); e == nil {
				return 0
			}
			continue
		}
		e.W.Restore(snap)
		e.M, e.Aux = ed.M.Clone(), cloneAux(ed.Aux)
	}
	var res mc.BlockRes
	func() {
		defer func() {
			if p := recover(); p != nil {
				res.Panic = fmt.Sprint(p)
			}
		}()
		res = e.W.RunBlock(at.Sub(ed.Parent.Time), raw)
	}()
	if res.Panic != "" {
		addD(ed.Path, Disc{Kind: "determinism.hidden_state", Detail: fmt.Sprintf("a node that executed %d other blocks (discarded again) since its start panics on this block: %s; a freshly started node does not", ran, firstLine(res.Panic)), Sig: map[string]string{"panic": "true"}})
		return 1
	}
	if g := fmt.Sprintf("%X", res.AppHash); g != wantH {
		addD(ed.Path, Disc{Kind: "determinism.hidden_state", Detail: fmt.Sprintf("same database content, same block: a node that executed %d other blocks (all discarded by restoring the database) since its start reaches app hash %s, a freshly started node %s: the application keeps state outside its database", ran, g, wantH),
			Sig: map[string]string{"only_gas_used_differs": "false", "failed_before_ante_handler": "false"}})
		return 1
	}
	for i, r := range res.Txs {
		got := c01Tx{r.Code, fmt.Sprintf("%x", r.Data), r.GasWanted, r.GasUsed}
		if i < len(refTx) && got != refTx[i] {
			onlyGas := got.Code == refTx[i].Code && got.Data == refTx[i].Data && got.GasWanted == refTx[i].GasWanted
			addD(ed.Path, Disc{Kind: "determinism.hidden_state", Detail: fmt.Sprintf("same database content, same block: on a node that executed %d other blocks (all discarded) since its start tx %d returns %+v, on a freshly started node %+v", ran, i, got, refTx[i]),
				Sig: map[string]string{"only_gas_used_differs": fmt.Sprint(onlyGas), "failed_before_ante_handler": fmt.Sprint(got.Code != 0 && got.GasWanted == 0)}})
			break
		}
	}
	return 1
}

func init() {
	Checks["C01"] = func() *Check {
		return &Check{ID: "C01", Extra: c01Extra, Owns: ownsAny("determinism.", "restart"),
			Assumptions: []string{"the CPU-count/process dimension is differential (separate OS processes, GOMAXPROCS 1..16), not a schedule enumeration: the repository's consensus path has no goroutines or locks", "map ranges are found syntactically (maps made, declared or stored in struct fields of the same package)", "write batches are atomic (as in LevelDB); torn batches are not modelled", "nondeterminism inside dependencies is only seen if a twin exposes it"}}
	}
}
