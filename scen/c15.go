package scen

import (
	"bytes"
	"encoding/json"
	"fmt"
	"sort"
	"strings"
	"time"

	dbm "github.com/cometbft/cometbft-db"
	abci "github.com/cometbft/cometbft/abci/types"

	"verif/mc"
	"verif/model"
)

var customSections = []string{"enterprise", "wrkchain", "beacon", "stream"}

func exportState(w *mc.World) (state map[string]json.RawMessage, height int64, cp *abci.RequestInitChain, err error) {
	defer func() {
		if p := recover(); p != nil {
			err = fmt.Errorf("export panicked: %v", firstLine(fmt.Sprint(p)))
		}
	}()
	exp, e := w.App.ExportAppStateAndValidators(false, nil, nil)
	if e != nil {
		return nil, 0, nil, e
	}
	if e := json.Unmarshal(exp.AppState, &state); e != nil {
		return nil, 0, nil, e
	}
	req := &abci.RequestInitChain{ChainId: mc.ChainID, Time: w.Time, ConsensusParams: exp.ConsensusParams, AppStateBytes: exp.AppState, InitialHeight: exp.Height}
	return state, exp.Height, req, nil
}

// importState initialises a fresh application (node default options: genesis invariants on) from an export.
func importState(src *mc.World, req *abci.RequestInitChain) (w *mc.World, err error) {
	defer func() {
		if p := recover(); p != nil {
			err = fmt.Errorf("%v", firstLine(fmt.Sprint(p)))
		}
	}()
	db := dbm.NewMemDB()
	w = &mc.World{DB: db, Spec: src.Spec, Accts: src.Accts, ByAddr: src.ByAddr}
	w.App = mc.NewAppOn(db, true, false)
	w.App.InitChain(*req)
	w.App.Commit()
	w.Height, w.Time = w.App.LastBlockHeight(), src.Time
	return w, nil
}

// copyWorld opens a second application on a copy of the database (used as the "original" side of
// the differential continuation, so that the explorer's own instance is never disturbed).
func copyWorld(src *mc.World) *mc.World {
	db := dbm.NewMemDB()
	for _, kv := range mc.DumpDB(src.DB) {
		must(db.Set(kv.K, kv.V))
	}
	w := &mc.World{DB: db, Spec: src.Spec, Accts: src.Accts, ByAddr: src.ByAddr}
	w.App = mc.NewAppOn(db, true, false)
	w.Height, w.Time = src.Height, src.Time
	return w
}

func storeDigest(w *mc.World) map[string][]mc.KV { return StoresDump(w) }

// exportImport is the C15 oracle on one committed state. contActions: letters used for the differential continuation.
func exportImport(sc *Scenario, probe ...string) func(e *Exec) []Disc {
	return func(e *Exec) []Disc {
		var out []Disc
		add := func(kind, f string, a ...any) { out = append(out, Disc{Kind: kind, Detail: fmt.Sprintf(f, a...)}) }
		st1, _, req, err := exportState(e.W)
		if err != nil {
			add("genesis.export", "export failed: %v", err)
			return out
		}
		w2, err := importState(e.W, req)
		if err != nil {
			nStreams := len(e.M.Str)
			out = append(out, Disc{Kind: "genesis.import_panic", Detail: fmt.Sprintf("InitChain of the exported state failed: %v", err),
				Sig: map[string]string{"panic_mentions_stream_invariant": fmt.Sprint(strings.Contains(err.Error(), "stream") && strings.Contains(err.Error(), "invariant")), "streams_with_deposit": fmt.Sprint(nStreams > 0)}})
			return out
		}
		// (ii) every registered invariant, and the books, on the imported chain
		for _, d := range SelfConsistency(w2) {
			add("genesis.invariant", "on the imported chain: %s: %s", d.Kind, d.Detail)
		}
		// (iii) same observable module state: the four module stores are compared key by key
		o1, o2 := storeDigest(e.W), storeDigest(w2)
		for _, s := range mc.CustomStores {
			if d := DiffStores(o1[s], o2[s]); len(d) > 0 {
				add("genesis.state_differs", "%s store differs after export/import at keys %v", s, d)
			}
		}
		// and through the queries, against the model
		if ds := Compare(w2, e.M, e.Tracked); len(ds) > 0 {
			for _, d := range ds {
				if !strings.HasPrefix(d.Kind, "bal:") && d.Kind != "supply" {
					add("genesis.state_differs", "query on the imported chain: %s: %s", d.Kind, d.Detail)
				}
			}
		}
		// (iv) exporting again gives identical documents for the four modules
		st2, _, _, err := exportState(w2)
		if err != nil {
			add("genesis.export", "re-export failed: %v", err)
		} else {
			for _, sec := range customSections {
				if !bytes.Equal(st1[sec], st2[sec]) {
					add("genesis.reexport_differs", "section %s of the re-exported genesis differs from the first export", sec)
				}
			}
		}
		// (v) differential continuation: every enabled letter applied to both chains
		orig := copyWorld(e.W)
		b1, b2 := orig.MakeBase(), w2.MakeBase()
		orig.SetBase(b1)
		w2.SetBase(b2)
		s1, s2 := orig.Snapshot(), w2.Snapshot()
		first := true
		for i := range sc.Actions {
			a := &sc.Actions[i]
			if a.Gov != nil || a.PrefixOnly || (a.Enabled != nil && !a.Enabled(e.M, e.Aux)) {
				continue
			}
			if !first {
				if orig.Poisoned || w2.Poisoned {
					break
				}
				orig.Restore(s1)
				w2.Restore(s2)
			}
			first = false
			e1 := &Exec{W: orig, M: e.M.Clone(), Aux: cloneAux(e.Aux), Tracked: e.Tracked}
			e2 := &Exec{W: w2, M: e.M.Clone(), Aux: cloneAux(e.Aux), Tracked: e.Tracked}
			ob1, _ := e1.Run(a, false)
			ob2, _ := e2.Run(a, false)
			contEvals.add(1)
			if ob1.Halted != ob2.Halted || len(ob1.Txs) != len(ob2.Txs) {
				add("genesis.continuation", "after export/import, step %s: original halted=%v txs=%d, imported halted=%v txs=%d", a.Name, ob1.Halted, len(ob1.Txs), ob2.Halted, len(ob2.Txs))
				continue
			}
			for j := range ob1.Txs {
				if ob1.Txs[j].Code != ob2.Txs[j].Code {
					add("genesis.continuation", "after export/import, step %s tx %d: code %d (%s) on the original chain, %d (%s) on the imported one", a.Name, j, ob1.Txs[j].Code, ob1.Txs[j].Log, ob2.Txs[j].Code, ob2.Txs[j].Log)
				}
			}
			if ob1.Halted {
				continue
			}
			d1, d2 := storeDigest(orig), storeDigest(w2)
			for _, s := range mc.CustomStores {
				if d := DiffStores(d1[s], d2[s]); len(d) > 0 {
					add("genesis.continuation", "after export/import, step %s leaves the %s stores different at keys %v", a.Name, s, d)
				}
			}
			// second continuation step over the probe letters (effects that need two operations after the
			// import to show, e.g. a counter that is only consulted when the next record prunes)
			if len(probe) == 0 || CurrentTier != Thorough || ob1.Halted || orig.Poisoned || w2.Poisoned {
				continue
			}
			sa1, sa2 := orig.Snapshot(), w2.Snapshot()
			m1, x1 := e1.M, e1.Aux
			for pi, pn := range probe {
				b := sc.action(pn)
				if b.Enabled != nil && !b.Enabled(m1, x1) {
					continue
				}
				if pi > 0 {
					if orig.Poisoned || w2.Poisoned {
						break
					}
					orig.Restore(sa1)
					w2.Restore(sa2)
				}
				f1 := &Exec{W: orig, M: m1.Clone(), Aux: cloneAux(x1), Tracked: e.Tracked}
				f2 := &Exec{W: w2, M: m1.Clone(), Aux: cloneAux(x1), Tracked: e.Tracked}
				q1, _ := f1.Run(b, false)
				q2, _ := f2.Run(b, false)
				contEvals.add(1)
				if q1.Halted != q2.Halted || len(q1.Txs) != len(q2.Txs) {
					add("genesis.continuation", "after export/import, steps %s, %s: original halted=%v txs=%d, imported halted=%v txs=%d", a.Name, b.Name, q1.Halted, len(q1.Txs), q2.Halted, len(q2.Txs))
					continue
				}
				for j := range q1.Txs {
					if q1.Txs[j].Code != q2.Txs[j].Code {
						add("genesis.continuation", "after export/import, steps %s, %s tx %d: code %d (%s) on the original chain, %d (%s) on the imported one", a.Name, b.Name, j, q1.Txs[j].Code, q1.Txs[j].Log, q2.Txs[j].Code, q2.Txs[j].Log)
					}
				}
				if q1.Halted {
					continue
				}
				g1, g2 := storeDigest(orig), storeDigest(w2)
				for _, s := range mc.CustomStores {
					if d := DiffStores(g1[s], g2[s]); len(d) > 0 {
						add("genesis.continuation", "after export/import, steps %s, %s leave the %s stores different at keys %v", a.Name, b.Name, s, d)
					}
				}
			}
			if orig.Poisoned || w2.Poisoned {
				break
			}
			orig.Restore(sa1)
			w2.Restore(sa2)
		}
		importEvals.add(1)
		// keep one discrepancy per kind and store to bound the output
		sort.SliceStable(out, func(i, j int) bool { return out[i].Kind < out[j].Kind })
		return out
	}
}

var importEvals, contEvals = newCounter(), newCounter()

func init() {
	Checks["C15"] = func() *Check {
		sc := unionScenario(unionOpts{name: "union-genesis"})
		sc.Visit = exportImport(sc)
		sc.VisitPure = true
		rich := c15Rich()
		many := c15Many()
		last := efundLast()
		last.Name = "genesis-last-efund"
		last.Visit = exportImport(last)
		last.VisitPure = true
		ef := efundScenario()
		ef.Name = "genesis-efund"
		ef.Visit = exportImport(ef)
		ef.VisitPure, ef.VisitAfterPrefix = true, true
		return &Check{ID: "C15",
			Runs: []Run{{S: sc, Opt: map[Tier]Options{
				Quick:    {Depth: 2, Budget: 150 * time.Second, ReplayEvery: 16},
				Thorough: {Depth: 4, Budget: 10 * time.Minute, ReplayEvery: 32, MaxStates: 60000},
			}}, {S: rich, Opt: map[Tier]Options{
				Quick:    {Depth: 2, Budget: 150 * time.Second, ReplayEvery: 16},
				Thorough: {Depth: 4, Budget: 10 * time.Minute, ReplayEvery: 32, MaxStates: 60000},
			}}, {S: many, Opt: map[Tier]Options{
				Quick:    {Depth: 1, Budget: 100 * time.Second, ReplayEvery: 4},
				Thorough: {Depth: 2, Budget: 5 * time.Minute, ReplayEvery: 8, MaxStates: 60000},
			}}, {S: last, Opt: map[Tier]Options{
				Quick:    {Depth: 2, Budget: 100 * time.Second, ReplayEvery: 16},
				Thorough: {Depth: 4, Budget: 5 * time.Minute, ReplayEvery: 32, MaxStates: 60000},
			}}, {S: ef, Opt: map[Tier]Options{
				Quick:    {Depth: 1, Budget: 100 * time.Second, ReplayEvery: 16},
				Thorough: {Depth: 2, Budget: 5 * time.Minute, ReplayEvery: 32, MaxStates: 60000},
			}}},
			Owns: ownsAny("genesis."),
			Extra: func(t Tier, ev *Evidence) []Violation {
				time.Sleep(50 * time.Millisecond)
				ev.Coverage["export_import_round_trips"] = importEvals.n
				ev.Coverage["differential_continuation_steps"] = contEvals.n
				return nil
			},
			Assumptions: []string{"only the four custom module sections are judged for byte-identical re-export (SDK sections such as ibc re-export differently)", "the 20,000-record export cap is not reached in the explored states"},
		}
	}
}

var _ = model.ModGov

// c15Rich: a long prefix drives the chain through the states the statement singles out (orders caught
// in raised and accepted status next to rejected and completed ones, partially spent eFUND, a pruned
// registration next to a registered-but-empty one with empty optional fields, purchased storage,
// expired-unclaimed, emptied and active streams in two denominations, parameters changed by
// governance); the export/import visitor runs after every block of the prefix and on every state of
// the search that follows, with a two-step differential continuation.
func c15Rich() *Scenario {
	far := GenesisTime.Unix() + 1_000_000_000
	g := BaseGenesis(
		mc.AcctSpec{Name: "S1", Coins: Coins(1000, 0)},
		mc.AcctSpec{Name: "P1", Coins: Coins(1000, 0)}, mc.AcctSpec{Name: "P2", Coins: Coins(1000, 0)},
		mc.AcctSpec{Name: "PV", Kind: mc.Continuous, Coins: Coins(1000, 0), Vesting: Coins(1000, 0), VestEnd: far},
		mc.AcctSpec{Name: "W1", Coins: Rich()}, mc.AcctSpec{Name: "W2", Coins: Rich()},
		mc.AcctSpec{Name: "A", Coins: Rich()}, mc.AcctSpec{Name: "B", Coins: Rich()},
		mc.AcctSpec{Name: "R1", Coins: Coins(1000, 0)}, mc.AcctSpec{Name: "R2", Coins: Coins(1000, 0)}, mc.AcctSpec{Name: "O", Coins: Rich()},
	)
	g.Whitelist = []string{"P1", "PV"}
	s := &Scenario{Name: "genesis-rich", Genesis: g, KeyTimeNs: false}
	ms := time.Millisecond
	add := func(a ...Action) { s.Actions = append(s.Actions, a...) }
	pre := func(a Action) {
		a.Enabled = nil
		a.PrefixOnly = true
		add(a)
		s.Prefix = append(s.Prefix, a.Name)
	}
	one := func(name string, m model.Msg, f map[string]string) Action {
		return Action{Name: name, Dt: ms, Txs: func(*model.State) []model.Tx { return []model.Tx{{Msgs: []model.Msg{m}, Fee: f}} }}
	}
	next := func(l uint64) uint64 { return l + 1 }
	pre(one("whitelist(S1,+P2)", model.Msg{Kind: model.EntWhitelist, From: "S1", To: "P2", N: 1}, nil))
	pre(raise("P1", 50, 9))
	pre(raise("P2", 11, 9))
	pre(raise("P1", 5, 9))
	pre(raise("PV", 500, 9))
	pre(decide("S1", 1, 2))
	pre(decide("S1", 2, 3))
	pre(regAct(model.WrkReg, "W1", []string{"chain-a", "Chain a", "0xgenesis-a", "geth"}, 9))
	pre(regAct(model.WrkReg, "W2", []string{"chain-b", "", "", "geth"}, 9))
	pre(regAct(model.BcnReg, "W1", []string{"beacon-a", "Beacon a"}, 9))
	pre(regAct(model.BcnReg, "W2", []string{"beacon-b", "b"}, 9)) // a BEACON needs a name; it stays without timestamps
	w1, b1 := wrecAct("wrec(W1,#1,next)", "W1", 1, next), brecAct("brec(W1,#1)", "W1", 1)
	add(w1, b1) // also letters of the search
	s.Prefix = append(s.Prefix, w1.Name, b1.Name, w1.Name, b1.Name, w1.Name, b1.Name)
	pre(purAct("wpur(W1,#1,1)", model.WrkPur, "W1", 1, 1, ""))
	pre(one("wreg(P1,chain-p,fee24)", model.Msg{Kind: model.WrkReg, From: "P1", S: []string{"chain-p", "Chain p", "0xgenesis-p", "cosmos"}}, fee(24)))
	pre(one("create(A->R1,600nund@10)", model.Msg{Kind: model.StrCreate, From: "A", To: "R1", Den: mc.Nund, Amt: "600", Rate: 10}, nil))
	pre(one("create(A->R2,121tok@2)", model.Msg{Kind: model.StrCreate, From: "A", To: "R2", Den: mc.Tok, Amt: "121", Rate: 2}, nil))
	pre(one("create(B->R1,6000nund@1)", model.Msg{Kind: model.StrCreate, From: "B", To: "R1", Den: mc.Nund, Amt: "6000", Rate: 1}, nil))
	// a stream topped up while flowing, deposit and top-up not multiples of the rate: its zero time is
	// floor(200/3) + floor(200/3) = 132 s after funding, not floor(400/3) = 133
	pre(one("create(B->R2,200nund@3)", model.Msg{Kind: model.StrCreate, From: "B", To: "R2", Den: mc.Nund, Amt: "200", Rate: 3}, nil))
	pre(one("topup(B->R2,200nund)", model.Msg{Kind: model.StrTopUp, From: "B", To: "R2", Den: mc.Nund, Amt: "200"}, nil))
	pre(one("create(B->L32:M,600nund@1)", model.Msg{Kind: model.StrCreate, From: "B", To: "L32:M", Den: mc.Nund, Amt: "600", Rate: 1}, nil))
	s.Tracked = append(s.Tracked, "L32:M")
	// parameters at their boundaries: a validator fee of exactly zero; maxima lowered below limits that
	// registrations already hold (chain 1: limit 3 > max 2, beacon 1: limit 4 > max 3)
	pre(purAct("bpur(W1,#1,2)", model.BcnPur, "W1", 1, 2, ""))
	gs := Action{Name: "gov(stream:fee=0)", Gov: &GovSpec{Kind: model.StrParams, Params: "0.000000000000000000"}}
	gw := Action{Name: "gov(wrk:default=1,max=2)", Gov: &GovSpec{Kind: model.WrkParams, Params: model.AnchorParams{FeeReg: 24, FeeRec: 2, FeePur: 3, Denom: mc.Nund, Default: 1, Max: 2}}}
	gb := Action{Name: "gov(bcn:default=1,max=3)", Gov: &GovSpec{Kind: model.BcnParams, Params: model.AnchorParams{FeeReg: 31, FeeRec: 5, FeePur: 7, Denom: mc.Nund, Default: 1, Max: 3}}}
	pre(gs)
	pre(gw)
	pre(gb)
	pre(Action{Name: "wait(1m40s)", Dt: 100 * time.Second})
	pre(one("claim(R1<-A)", model.Msg{Kind: model.StrClaim, From: "R1", To: "A"}, nil))
	pre(one("claim(R1<-B)", model.Msg{Kind: model.StrClaim, From: "R1", To: "B"}, nil))
	pre(decide("S1", 4, 2))
	// letters of the search (and of the differential continuation)
	add(
		Action{Name: "wait(1s)", Dt: time.Second, Enabled: func(m *model.State, _ map[string]int) bool { return elapsed(m) < 400 }},
		wrecAct("wrec(W2,#2,next)", "W2", 2, next), brecAct("brec(W2,#2)", "W2", 2),
		one("topup(A->R1,65nund)", model.Msg{Kind: model.StrTopUp, From: "A", To: "R1", Den: mc.Nund, Amt: "65"}, nil),
		one("create(A->R1,90nund@1)", model.Msg{Kind: model.StrCreate, From: "A", To: "R1", Den: mc.Nund, Amt: "90", Rate: 1}, nil),
		one("cancel(A->R1)", model.Msg{Kind: model.StrCancel, From: "A", To: "R1"}, nil),
		one("claim(R2<-A)", model.Msg{Kind: model.StrClaim, From: "R2", To: "A"}, nil),
		one("claim(R1<-B)#", model.Msg{Kind: model.StrClaim, From: "R1", To: "B"}, nil),
		one("cancel(B->R1)", model.Msg{Kind: model.StrCancel, From: "B", To: "R1"}, nil),
		one("update(B->R1,@3)", model.Msg{Kind: model.StrUpdate, From: "B", To: "R1", Rate: 3}, nil),
		one("raise(P2,13)", model.Msg{Kind: model.EntRaise, From: "P2", Den: mc.Nund, Amt: "13"}, nil),
		decide("S1", 3, 2), decide("S1", 3, 3),
		one("whitelist(S1,-P1)", model.Msg{Kind: model.EntWhitelist, From: "S1", To: "P1", N: 2}, nil),
		one("wrec(P1,#3,1,fee2)", model.Msg{Kind: model.WrkRec, From: "P1", ID: 3, H: 1, S: []string{"0xp1", "", "", "", ""}}, fee(2)),
		purAct("bpur(W1,#1,1)", model.BcnPur, "W1", 1, 1, ""),
		regAct(model.BcnReg, "O", []string{"beacon-o", "Beacon o"}, 9),
		one("send(A->O,5nund)", model.Msg{Kind: model.BankSend, From: "A", To: "O", Den: mc.Nund, Amt: "5"}, nil),
	)
	s.VisitPure = true
	s.Visit = exportImport(s, "wait(1s)", "wrec(W1,#1,next)", "wrec(W2,#2,next)", "brec(W1,#1)", "brec(W2,#2)", "topup(A->R1,65nund)", "claim(R1<-B)#", "wrec(P1,#3,1,fee2)")
	return s
}

// c15Many: more entities than any page size or list cap in the code base (105 WRKChains and BEACONs over
// three owners, 105 purchase orders, 105 streams), one chain and one beacon with more records than
// their limit; export/import on the state the prefix ends in and on its successors.
func c15Many() *Scenario {
	accts := []mc.AcctSpec{{Name: "S1", Coins: Coins(1000, 0)}, {Name: "P1", Coins: Rich()}}
	for _, n := range []string{"W1", "W2", "W3", "A", "B"} {
		accts = append(accts, mc.AcctSpec{Name: n, Coins: Rich()})
	}
	g := BaseGenesis(accts...)
	g.Whitelist = []string{"P1"}
	s := &Scenario{Name: "genesis-many", Genesis: g, KeyTimeNs: false, VisitAfterPrefix: true, VisitPure: true}
	ms := time.Millisecond
	const n = 105
	owners := []string{"W1", "W2", "W3"}
	pre := func(a Action) {
		a.PrefixOnly, a.Enabled = true, nil
		s.Actions = append(s.Actions, a)
		s.Prefix = append(s.Prefix, a.Name)
	}
	// seven registrations, orders and streams per block
	for i := 0; i < n; i += 7 {
		i := i
		pre(Action{Name: fmt.Sprintf("register+raise+create[%d..%d]", i+1, i+7), Dt: ms, Txs: func(m *model.State) []model.Tx {
			var txs []model.Tx
			for j := i; j < i+7 && j < n; j++ {
				o := owners[j%3]
				txs = append(txs,
					model.Tx{Msgs: []model.Msg{{Kind: model.WrkReg, From: o, S: []string{fmt.Sprintf("chain-%d", j+1), fmt.Sprintf("Chain %d", j+1), "0xgen", "geth"}}}, Fee: fee(m.Wrk.P.FeeReg)},
					model.Tx{Msgs: []model.Msg{{Kind: model.BcnReg, From: o, S: []string{fmt.Sprintf("beacon-%d", j+1), fmt.Sprintf("Beacon %d", j+1)}}}, Fee: fee(m.Bcn.P.FeeReg)},
					model.Tx{Msgs: []model.Msg{{Kind: model.EntRaise, From: "P1", Den: mc.Nund, Amt: fmt.Sprint(j + 1)}}},
					model.Tx{Msgs: []model.Msg{{Kind: model.StrCreate, From: "A", To: fmt.Sprintf("L20:r%d", j+1), Den: mc.Nund, Amt: "6000", Rate: 1}}},
				)
			}
			return txs
		}})
	}
	next := func(l uint64) uint64 { return l + 1 }
	w1, b1 := wrecAct("wrec(W2,#104,next)", "W2", 104, next), brecAct("brec(W2,#104)", "W2", 104)
	s.Actions = append(s.Actions, w1, b1)
	s.Prefix = append(s.Prefix, w1.Name, b1.Name, w1.Name, b1.Name, w1.Name, b1.Name)
	pre(decide("S1", 103, 2))
	pre(decide("S1", 104, 3))
	pre(decide("S1", 105, 2))
	s.Actions = append(s.Actions,
		Action{Name: "wait(1s)", Dt: time.Second, Enabled: func(m *model.State, _ map[string]int) bool { return elapsed(m) < 30 }},
		wrecAct("wrec(W3,#105,next)", "W3", 105, next), brecAct("brec(W3,#105)", "W3", 105),
		wrecAct("wrec(W2,#101,next)", "W2", 101, next), brecAct("brec(W2,#101)", "W2", 101),
		Action{Name: "cancel(A->L20:r105)", Dt: ms, Txs: tx1(model.Msg{Kind: model.StrCancel, From: "A", To: "L20:r105"})},
		decide("S1", 101, 2),
	)
	for j := 0; j < n; j++ {
		s.Tracked = append(s.Tracked, fmt.Sprintf("L20:r%d", j+1))
	}
	s.Visit = exportImport(s)
	return s
}
