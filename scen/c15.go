package scen

import (
	"bytes"
	"encoding/json"
	"fmt"
	"sort"
	"strings"
	"time"

	dbm "github.com/cometbft/cometbft-db"
	abci "github.com/cometbft/cometbft/abci/types"

	"verif/mc"
	"verif/model"
)

var customSections = []string{"enterprise", "wrkchain", "beacon", "stream"}

func exportState(w *mc.World) (state map[string]json.RawMessage, height int64, cp *abci.RequestInitChain, err error) {
	defer func() {
		if p := recover(); p != nil {
			err = fmt.Errorf("export panicked: %v", firstLine(fmt.Sprint(p)))
		}
	}()
	exp, e := w.App.ExportAppStateAndValidators(false, nil, nil)
	if e != nil {
		return nil, 0, nil, e
	}
	if e := json.Unmarshal(exp.AppState, &state); e != nil {
		return nil, 0, nil, e
	}
	req := &abci.RequestInitChain{ChainId: mc.ChainID, Time: w.Time, ConsensusParams: exp.ConsensusParams, AppStateBytes: exp.AppState, InitialHeight: exp.Height}
	return state, exp.Height, req, nil
}

// importState initialises a fresh application (node default options: genesis invariants on) from an export.
func importState(src *mc.World, req *abci.RequestInitChain) (w *mc.World, err error) {
	defer func() {
		if p := recover(); p != nil {
			err = fmt.Errorf("%v", firstLine(fmt.Sprint(p)))
		}
	}()
	db := dbm.NewMemDB()
	w = &mc.World{DB: db, Spec: src.Spec, Accts: src.Accts, ByAddr: src.ByAddr}
	w.App = mc.NewAppOn(db, true, false)
	w.App.InitChain(*req)
	w.App.Commit()
	w.Height, w.Time = w.App.LastBlockHeight(), src.Time
	return w, nil
}

// copyWorld opens a second application on a copy of the database (used as the "original" side of
// the differential continuation, so that the explorer's own instance is never disturbed).
func copyWorld(src *mc.World) *mc.World {
	db := dbm.NewMemDB()
	for _, kv := range mc.DumpDB(src.DB) {
		must(db.Set(kv.K, kv.V))
	}
	w := &mc.World{DB: db, Spec: src.Spec, Accts: src.Accts, ByAddr: src.ByAddr}
	w.App = mc.NewAppOn(db, true, false)
	w.Height, w.Time = src.Height, src.Time
	return w
}

func storeDigest(w *mc.World) map[string][]mc.KV { return StoresDump(w) }

// exportImport is the C15 oracle on one committed state. contActions: letters used for the differential continuation.
func exportImport(sc *Scenario) func(e *Exec) []Disc {
	return func(e *Exec) []Disc {
		var out []Disc
		add := func(kind, f string, a ...any) { out = append(out, Disc{Kind: kind, Detail: fmt.Sprintf(f, a...)}) }
		st1, _, req, err := exportState(e.W)
		if err != nil {
			add("genesis.export", "export failed: %v", err)
			return out
		}
		w2, err := importState(e.W, req)
		if err != nil {
			nStreams := len(e.M.Str)
			out = append(out, Disc{Kind: "genesis.import_panic", Detail: fmt.Sprintf("InitChain of the exported state failed: %v", err),
				Sig: map[string]string{"panic_mentions_stream_invariant": fmt.Sprint(strings.Contains(err.Error(), "stream") && strings.Contains(err.Error(), "invariant")), "streams_with_deposit": fmt.Sprint(nStreams > 0)}})
			return out
		}
		// (ii) every registered invariant, and the books, on the imported chain
		for _, d := range SelfConsistency(w2) {
			add("genesis.invariant", "on the imported chain: %s: %s", d.Kind, d.Detail)
		}
		// (iii) same observable module state: the four module stores are compared key by key
		o1, o2 := storeDigest(e.W), storeDigest(w2)
		for _, s := range mc.CustomStores {
			if d := DiffStores(o1[s], o2[s]); len(d) > 0 {
				add("genesis.state_differs", "%s store differs after export/import at keys %v", s, d)
			}
		}
		// and through the queries, against the model
		if ds := Compare(w2, e.M, e.Tracked); len(ds) > 0 {
			for _, d := range ds {
				if !strings.HasPrefix(d.Kind, "bal:") && d.Kind != "supply" {
					add("genesis.state_differs", "query on the imported chain: %s: %s", d.Kind, d.Detail)
				}
			}
		}
		// (iv) exporting again gives identical documents for the four modules
		st2, _, _, err := exportState(w2)
		if err != nil {
			add("genesis.export", "re-export failed: %v", err)
		} else {
			for _, sec := range customSections {
				if !bytes.Equal(st1[sec], st2[sec]) {
					add("genesis.reexport_differs", "section %s of the re-exported genesis differs from the first export", sec)
				}
			}
		}
		// (v) differential continuation: every enabled letter applied to both chains
		orig := copyWorld(e.W)
		b1, b2 := orig.MakeBase(), w2.MakeBase()
		orig.SetBase(b1)
		w2.SetBase(b2)
		s1, s2 := orig.Snapshot(), w2.Snapshot()
		first := true
		for i := range sc.Actions {
			a := &sc.Actions[i]
			if a.Gov != nil || (a.Enabled != nil && !a.Enabled(e.M, e.Aux)) {
				continue
			}
			if !first {
				if orig.Poisoned || w2.Poisoned {
					break
				}
				orig.Restore(s1)
				w2.Restore(s2)
			}
			first = false
			e1 := &Exec{W: orig, M: e.M.Clone(), Aux: cloneAux(e.Aux), Tracked: e.Tracked}
			e2 := &Exec{W: w2, M: e.M.Clone(), Aux: cloneAux(e.Aux), Tracked: e.Tracked}
			ob1, _ := e1.Run(a, false)
			ob2, _ := e2.Run(a, false)
			contEvals.add(1)
			if ob1.Halted != ob2.Halted || len(ob1.Txs) != len(ob2.Txs) {
				add("genesis.continuation", "after export/import, step %s: original halted=%v txs=%d, imported halted=%v txs=%d", a.Name, ob1.Halted, len(ob1.Txs), ob2.Halted, len(ob2.Txs))
				continue
			}
			for j := range ob1.Txs {
				if ob1.Txs[j].Code != ob2.Txs[j].Code {
					add("genesis.continuation", "after export/import, step %s tx %d: code %d (%s) on the original chain, %d (%s) on the imported one", a.Name, j, ob1.Txs[j].Code, ob1.Txs[j].Log, ob2.Txs[j].Code, ob2.Txs[j].Log)
				}
			}
			if ob1.Halted {
				continue
			}
			d1, d2 := storeDigest(orig), storeDigest(w2)
			for _, s := range mc.CustomStores {
				if d := DiffStores(d1[s], d2[s]); len(d) > 0 {
					add("genesis.continuation", "after export/import, step %s leaves the %s stores different at keys %v", a.Name, s, d)
				}
			}
		}
		importEvals.add(1)
		// keep one discrepancy per kind and store to bound the output
		sort.SliceStable(out, func(i, j int) bool { return out[i].Kind < out[j].Kind })
		return out
	}
}

var importEvals, contEvals = newCounter(), newCounter()

func init() {
	Checks["C15"] = func() *Check {
		sc := unionScenario(unionOpts{name: "union-genesis"})
		sc.Visit = exportImport(sc)
		return &Check{ID: "C15",
			Runs: []Run{{S: sc, Opt: map[Tier]Options{
				Quick:    {Depth: 2, Budget: 150 * time.Second, ReplayEvery: 16},
				Thorough: {Depth: 4, Budget: 30 * time.Minute, ReplayEvery: 32, MaxStates: 60000},
			}}},
			Owns: ownsAny("genesis."),
			Extra: func(t Tier, ev *Evidence) []Violation {
				time.Sleep(50 * time.Millisecond)
				ev.Coverage["export_import_round_trips"] = importEvals.n
				ev.Coverage["differential_continuation_steps"] = contEvals.n
				return nil
			},
			Assumptions: []string{"only the four custom module sections are judged for byte-identical re-export (SDK sections such as ibc re-export differently)", "the 20,000-record export cap is not reached in the explored states"},
		}
	}
}

var _ = model.ModGov
