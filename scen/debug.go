package scen

import "fmt"

// DebugPath replays a path fresh (twice) and with snapshot/restore before every step.
func DebugPath(check, scenario string, path []string) {
	c := Checks[check]()
	for _, r := range c.Runs {
		if r.S.Name != scenario {
			continue
		}
		s := r.S
		for round := 0; round < 2; round++ {
			e := s.NewExec()
			for _, n := range path {
				obs, ds := e.Run(s.action(n), true)
				fmt.Printf("fresh%d %-40s hash=%s halted=%v div=%v\n", round, n, obs.AppHash, obs.Halted, obs.Diverged)
				for _, t := range obs.Txs {
					fmt.Printf("      tx code=%d ante=%v pred=%s log=%s\n", t.Code, t.AnteOK, t.Pred, t.Log)
				}
				for _, d := range ds {
					fmt.Printf("      DISC %s: %s\n", d.Kind, d.Detail)
				}
			}
		}
		e := s.NewExec()
		e2 := s.NewExec()
		base := e.W.MakeBase()
		e.W.SetBase(base)
		e2.W.SetBase(base)
		for _, n := range path {
			snap := e.W.Snapshot()
			m, aux := e.M.Clone(), cloneAux(e.Aux)
			// run a decoy on e2, then restore e2 to the snapshot and run the real step there
			e2.W.Restore(snap)
			e2.M, e2.Aux = m, aux
			obs, _ := e2.Run(s.action(n), true)
			fmt.Printf("restore %-40s hash=%s\n", n, obs.AppHash)
			e, e2 = e2, e
		}
	}
}
