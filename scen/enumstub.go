package scen

func c11Enum(t Tier, ev *Evidence) []Violation { return nil }
func c12Enum(t Tier, ev *Evidence) []Violation { return nil }
