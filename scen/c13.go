package scen

import (
	"fmt"
	"math/big"
	"time"

	"verif/mc"
	"verif/model"
)

// c13Scenario: a base history (prefix) followed by the full fan-out
// {message type} x {address named in the message} x {key that signs}.
func c13Scenario(name string, prefix []string) *Scenario {
	g := BaseGenesis(
		mc.AcctSpec{Name: "S1", Coins: Rich()}, mc.AcctSpec{Name: "P1", Coins: Rich()}, mc.AcctSpec{Name: "W1", Coins: Rich()},
		mc.AcctSpec{Name: "A", Coins: Rich()}, mc.AcctSpec{Name: "R1", Coins: Rich()}, mc.AcctSpec{Name: "O", Coins: Rich()},
		mc.AcctSpec{Name: "GR", Coins: Rich()},
	)
	g.Whitelist = []string{"P1"}
	s := &Scenario{Name: name, Genesis: g, KeyTimeNs: false, Prefix: prefix}
	ms := time.Millisecond
	// base letters
	s.Actions = []Action{
		raise("P1", 7, 9),
		regAct(model.WrkReg, "W1", []string{"chain-a", "Chain a", "0xgen", "geth"}, 1), regAct(model.BcnReg, "W1", []string{"beacon-a", "Beacon a"}, 1),
		wrecAct("wrec(W1,#1,next)", "W1", 1, func(l uint64) uint64 { return l + 1 }),
		{Name: "create(A->R1,600nund@10)", Dt: ms, Txs: tx1(model.Msg{Kind: model.StrCreate, From: "A", To: "R1", Den: mc.Nund, Amt: "600", Rate: 10})},
		decide("S1", 1, 2),
		{Name: "wait(30s)", Dt: 30 * time.Second},
		{Name: "feegrant(GR->all)", Dt: ms, Txs: func(*model.State) []model.Tx {
			var msgs []model.Msg
			for _, to := range []string{"S1", "P1", "W1", "A", "R1", "O"} {
				msgs = append(msgs, model.Msg{Kind: model.FeeGrant, From: "GR", To: to})
			}
			return []model.Tx{{Msgs: msgs}}
		}},
		// entitlement that moves: a whitelisting, a removal, a hand-over of the signer role by governance
		{Name: "whitelist(S1,+A)", Dt: ms, Txs: tx1(model.Msg{Kind: model.EntWhitelist, From: "S1", To: "A", N: 1})},
		{Name: "whitelist(S1,-P1)", Dt: ms, Txs: tx1(model.Msg{Kind: model.EntWhitelist, From: "S1", To: "P1", N: 2})},
		{Name: "gov(ent:signers=O;min=1)", Gov: &GovSpec{Kind: model.EntParams, Params: model.EntParamsRaw{Denom: mc.Nund, Signers: "O", Min: 1, Limit: 100}}},
		{Name: "gov(ent:signers=O;min=1)+failing-msg", Gov: &GovSpec{Kind: model.EntParams, Params: model.EntParamsRaw{Denom: mc.Nund, Signers: "O", Min: 1, Limit: 100}, FailAfter: true}},
		// registrations and records on the identifiers they are about to get, rolled back with their transaction
		{Name: "rolled-back-registrations(O)", Dt: ms, Txs: func(m *model.State) []model.Tx {
			return []model.Tx{{Msgs: []model.Msg{
				{Kind: model.WrkReg, From: "O", S: []string{"m-rb", "n", "0xg", "t"}}, {Kind: model.WrkRec, From: "O", ID: m.Wrk.NextID, H: 1, S: []string{"0xrb", "", "", "", ""}},
				{Kind: model.BcnReg, From: "O", S: []string{"bm-rb", "bn"}}, {Kind: model.BcnRec, From: "O", ID: m.Bcn.NextID, S: []string{"0xrb"}, T: 1_600_000_000},
				{Kind: model.StrCancel, From: "O", To: "W1"}}, // no such stream: the whole transaction fails
				Fee: fee(m.Wrk.P.FeeReg + m.Wrk.P.FeeRec + m.Bcn.P.FeeReg + m.Bcn.P.FeeRec)}}
		}},
	}
	base := len(s.Actions)
	accts := []string{"S1", "P1", "W1", "A", "R1", "O"}
	named := append(append([]string{}, accts...), model.ModGov)
	other := func(x, a, b string) string {
		if x == a {
			return b
		}
		return a
	}
	mk := map[string]func(x string, m *model.State) (model.Msg, map[string]string){
		model.EntRaise: func(x string, m *model.State) (model.Msg, map[string]string) {
			return model.Msg{Kind: model.EntRaise, From: x, Den: mc.Nund, Amt: "5"}, nil
		},
		model.EntDecide: func(x string, m *model.State) (model.Msg, map[string]string) {
			return model.Msg{Kind: model.EntDecide, From: x, ID: 1, N: 2}, nil
		},
		model.EntWhitelist: func(x string, m *model.State) (model.Msg, map[string]string) {
			return model.Msg{Kind: model.EntWhitelist, From: x, To: "O", N: 1}, nil
		},
		model.WrkReg: func(x string, m *model.State) (model.Msg, map[string]string) {
			return model.Msg{Kind: model.WrkReg, From: x, S: []string{"m-" + x, "n", "0xg", "t"}}, fee(m.Wrk.P.FeeReg)
		},
		model.WrkRec: func(x string, m *model.State) (model.Msg, map[string]string) {
			h := uint64(1)
			if e, ok := m.Wrk.Ents[1]; ok {
				h = e.Last + 1
			}
			return model.Msg{Kind: model.WrkRec, From: x, ID: 1, H: h, S: []string{"0xbb", "", "", "", ""}}, fee(m.Wrk.P.FeeRec)
		},
		model.WrkPur: func(x string, m *model.State) (model.Msg, map[string]string) {
			return model.Msg{Kind: model.WrkPur, From: x, ID: 1, N: 1}, fee(m.Wrk.P.FeePur)
		},
		model.BcnReg: func(x string, m *model.State) (model.Msg, map[string]string) {
			return model.Msg{Kind: model.BcnReg, From: x, S: []string{"bm-" + x, "bn"}}, fee(m.Bcn.P.FeeReg)
		},
		model.BcnRec: func(x string, m *model.State) (model.Msg, map[string]string) {
			return model.Msg{Kind: model.BcnRec, From: x, ID: 1, S: []string{"0xts"}, T: 1_600_000_000}, fee(m.Bcn.P.FeeRec)
		},
		model.BcnPur: func(x string, m *model.State) (model.Msg, map[string]string) {
			return model.Msg{Kind: model.BcnPur, From: x, ID: 1, N: 1}, fee(m.Bcn.P.FeePur)
		},
		model.StrCreate: func(x string, m *model.State) (model.Msg, map[string]string) {
			return model.Msg{Kind: model.StrCreate, From: x, To: other(x, "R1", "O"), Den: mc.Nund, Amt: "90", Rate: 1}, nil
		},
		model.StrClaim: func(x string, m *model.State) (model.Msg, map[string]string) {
			return model.Msg{Kind: model.StrClaim, From: x, To: other(x, "A", "O")}, nil
		},
		model.StrTopUp: func(x string, m *model.State) (model.Msg, map[string]string) {
			return model.Msg{Kind: model.StrTopUp, From: x, To: other(x, "R1", "O"), Den: mc.Nund, Amt: "30"}, nil
		},
		model.StrUpdate: func(x string, m *model.State) (model.Msg, map[string]string) {
			return model.Msg{Kind: model.StrUpdate, From: x, To: other(x, "R1", "O"), Rate: 5}, nil
		},
		model.StrCancel: func(x string, m *model.State) (model.Msg, map[string]string) {
			return model.Msg{Kind: model.StrCancel, From: x, To: other(x, "R1", "O")}, nil
		},
		model.EntParams: func(x string, m *model.State) (model.Msg, map[string]string) {
			return model.Msg{Kind: model.EntParams, From: x, Params: model.EntParamsRaw{Denom: mc.Nund, Signers: "O", Min: 1, Limit: 5}}, nil
		},
		model.WrkParams: func(x string, m *model.State) (model.Msg, map[string]string) {
			return model.Msg{Kind: model.WrkParams, From: x, Params: model.AnchorParams{FeeReg: 1, FeeRec: 1, FeePur: 1, Denom: mc.Nund, Default: 9, Max: 9}}, nil
		},
		model.BcnParams: func(x string, m *model.State) (model.Msg, map[string]string) {
			return model.Msg{Kind: model.BcnParams, From: x, Params: model.AnchorParams{FeeReg: 1, FeeRec: 1, FeePur: 1, Denom: mc.Nund, Default: 9, Max: 9}}, nil
		},
		model.StrParams: func(x string, m *model.State) (model.Msg, map[string]string) {
			return model.Msg{Kind: model.StrParams, From: x, Params: "1.000000000000000000"}, nil
		},
	}
	kinds := []string{model.EntRaise, model.EntDecide, model.EntWhitelist, model.WrkReg, model.WrkRec, model.WrkPur, model.BcnReg, model.BcnRec, model.BcnPur,
		model.StrCreate, model.StrClaim, model.StrTopUp, model.StrUpdate, model.StrCancel, model.EntParams, model.WrkParams, model.BcnParams, model.StrParams}
	for _, k := range kinds {
		for _, x := range named {
			for _, y := range accts {
				k, x, y := k, x, y
				s.Actions = append(s.Actions, Action{Name: fmt.Sprintf("%s[names %s, signed by %s]", k, x, y), Dt: ms,
					Txs: func(m *model.State) []model.Tx {
						msg, f := mk[k](x, m)
						return []model.Tx{{Msgs: []model.Msg{msg}, Fee: f, Signers: []string{y}}}
					},
					Enabled: func(_ *model.State, aux map[string]int) bool { return aux["base"] >= 1 }})
			}
		}
	}
	// parameter updates nested in an authz MsgExec whose grantee names itself as the authority (authz needs no
	// grant when granter and grantee coincide): still only the governance authority may update parameters
	for _, k := range []string{model.EntParams, model.WrkParams, model.BcnParams, model.StrParams} {
		for _, x := range accts {
			k, x := k, x
			s.Actions = append(s.Actions, Action{Name: fmt.Sprintf("exec(%s,%s[names %s])", x, k, x), Dt: ms,
				Txs: func(m *model.State) []model.Tx {
					msg, _ := mk[k](x, m)
					return []model.Tx{{Msgs: []model.Msg{{Kind: model.AuthzExec, From: x, Inner: []model.Msg{msg}}}}}
				},
				Enabled: func(_ *model.State, aux map[string]int) bool { return aux["base"] >= 1 }})
		}
	}
	// signatures cover the whole message: every message type signed in amino-JSON mode (where the signed
	// bytes come from the message's own GetSignBytes) by its entitled party - once delivered as signed
	// (control: behaves like any other transaction), once per field altered after signing (must not pass
	// signature verification)
	entitled := map[string]string{model.EntRaise: "P1", model.EntDecide: "S1", model.EntWhitelist: "S1", model.WrkReg: "W1", model.WrkRec: "W1", model.WrkPur: "W1",
		model.BcnReg: "W1", model.BcnRec: "W1", model.BcnPur: "W1", model.StrCreate: "A", model.StrClaim: "R1", model.StrTopUp: "A", model.StrUpdate: "A", model.StrCancel: "A"}
	for _, k := range kinds {
		x, ok := entitled[k]
		if !ok {
			continue
		}
		k, x := k, x
		fan := func(_ *model.State, aux map[string]int) bool { return aux["base"] >= 1 }
		s.Actions = append(s.Actions, Action{Name: fmt.Sprintf("amino-json(%s by %s)", k, x), Dt: ms, Enabled: fan,
			Txs: func(m *model.State) []model.Tx {
				msg, f := mk[k](x, m)
				return []model.Tx{{Msgs: []model.Msg{msg}, Signed: []model.Msg{msg}, Fee: f}}
			}})
		probe, _ := mk[k](x, model.NewProbeState())
		for vi := range alterMsg(probe) {
			vi := vi
			s.Actions = append(s.Actions, Action{Name: fmt.Sprintf("altered-after-signing(%s by %s, variant %d)", k, x, vi), Dt: ms, Enabled: fan,
				Txs: func(m *model.State) []model.Tx {
					msg, f := mk[k](x, m)
					return []model.Tx{{Msgs: []model.Msg{alterMsg(msg)[vi]}, Signed: []model.Msg{msg}, Fee: f}}
				}})
		}
	}
	// an exact resubmission of a record the chain already holds (same identifier, height and hashes), by its
	// owner and by everybody else: "it is already there" is no reason to tell a non-owner that it succeeded
	for _, x := range accts {
		x := x
		s.Actions = append(s.Actions, Action{Name: fmt.Sprintf("wrk.rec[resubmission of the last record, names %s, signed by %s]", x, x), Dt: ms,
			Txs: func(m *model.State) []model.Tx {
				e := m.Wrk.Ents[1]
				r := e.Ever[e.Last]
				return []model.Tx{{Msgs: []model.Msg{{Kind: model.WrkRec, From: x, ID: 1, H: r.H, S: append([]string{}, r.S...)}}, Fee: fee(m.Wrk.P.FeeRec)}}
			},
			Enabled: func(m *model.State, aux map[string]int) bool {
				e, ok := m.Wrk.Ents[1]
				return aux["base"] >= 1 && ok && e.Last > 0
			}})
	}
	// the route a transaction takes through the pre-execution stage depends on more than its messages
	// (a fee granter, a fee-carrying WRKChain/BEACON message riding along): whatever the route, a message
	// naming x and signed with y's key takes no effect. Per message type: the forged transaction with a
	// fee granter that granted nothing, with one that did grant x an allowance, and bundled behind y's own
	// (genuine) WRKChain registration and BEACON registration
	for _, k := range kinds {
		x, ok := entitled[k]
		if !ok {
			continue
		}
		k, x := k, x
		y := other(x, "O", "S1")
		fan := func(_ *model.State, aux map[string]int) bool { return aux["base"] >= 1 }
		for _, g := range []string{"R1", "GR"} {
			g := g
			if g == x {
				continue
			}
			s.Actions = append(s.Actions, Action{Name: fmt.Sprintf("%s[names %s, signed by %s, fee granter %s]", k, x, y, g), Dt: ms, Enabled: fan,
				Txs: func(m *model.State) []model.Tx {
					msg, f := mk[k](x, m)
					return []model.Tx{{Msgs: []model.Msg{msg}, Fee: f, Signers: []string{y}, FeeGranter: g}}
				}})
		}
		for _, lead := range []string{model.WrkReg, model.BcnReg} {
			lead := lead
			s.Actions = append(s.Actions, Action{Name: fmt.Sprintf("%s by %s + %s[names %s], both signed by %s", lead, y, k, x, y), Dt: ms, Enabled: fan,
				Txs: func(m *model.State) []model.Tx {
					l, lf := mk[lead](y, m)
					msg, f := mk[k](x, m)
					return []model.Tx{{Msgs: []model.Msg{l, msg}, Fee: addFees(lf, f), Signers: []string{y, y}}}
				}})
		}
	}
	// the base letters are only for the prefix; the search itself is the fan-out
	for i := 0; i < base; i++ {
		s.Actions[i].Enabled = func(*model.State, map[string]int) bool { return false }
	}
	s.Actions = append(s.Actions, Action{Name: "begin-fanout", Dt: ms, Count: "base", Enabled: func(_ *model.State, aux map[string]int) bool { return aux["base"] < 1 }})
	s.Prefix = append(append([]string{}, prefix...), "begin-fanout")
	return s
}

// addFees: the sum of two fee maps (either may be nil).
func addFees(a, b map[string]string) map[string]string {
	if a == nil {
		return b
	}
	if b == nil {
		return a
	}
	out := map[string]string{}
	for d, v := range a {
		out[d] = v
	}
	for d, v := range b {
		if cur, ok := out[d]; ok {
			x, _ := new(big.Int).SetString(cur, 10)
			y, _ := new(big.Int).SetString(v, 10)
			out[d] = x.Add(x, y).String()
		} else {
			out[d] = v
		}
	}
	return out
}

// alterMsg: the message with one field changed at a time (same acting party, so the same keys sign).
func alterMsg(m model.Msg) []model.Msg {
	var out []model.Msg
	add := func(f func(v *model.Msg)) {
		v := m
		v.S = append([]string{}, m.S...)
		f(&v)
		out = append(out, v)
	}
	if m.ID > 0 {
		add(func(v *model.Msg) { v.ID++ })
	}
	switch m.Kind {
	case model.EntDecide:
		add(func(v *model.Msg) { v.N = 5 - v.N }) // accept <-> reject
	case model.EntWhitelist:
		add(func(v *model.Msg) { v.N = 3 - v.N }) // add <-> remove
	case model.WrkPur, model.BcnPur:
		add(func(v *model.Msg) { v.N++ })
	}
	if m.Amt != "" {
		add(func(v *model.Msg) { v.Amt += "0" })
	}
	if m.Rate > 0 {
		add(func(v *model.Msg) { v.Rate++ })
	}
	if m.To != "" {
		add(func(v *model.Msg) { v.To = map[bool]string{true: "P1", false: "O"}[v.To == "O"] })
	}
	if m.H > 0 {
		add(func(v *model.Msg) { v.H++ })
	}
	for i := range m.S {
		i := i
		add(func(v *model.Msg) { v.S[i] += "x" })
	}
	if m.T > 0 {
		add(func(v *model.Msg) { v.T++ })
	}
	return out
}

func init() {
	Checks["C13"] = func() *Check {
		h1 := []string{"raise(P1,7)", "wreg(W1,chain-a)", "breg(W1,beacon-a)", "create(A->R1,600nund@10)", "feegrant(GR->all)"}
		h2 := append(append([]string{}, h1...), "wrec(W1,#1,next)", "wait(30s)", "accept(S1,#1)", "wait(30s)", "wait(30s)", "wait(30s)")
		h0 := []string{}
		h3 := []string{"raise(P1,7)", "whitelist(S1,+A)", "whitelist(S1,-P1)", "gov(ent:signers=O;min=1)", "create(A->R1,600nund@10)"}
		h4 := []string{"rolled-back-registrations(O)", "wreg(W1,chain-a)", "breg(W1,beacon-a)", "raise(P1,7)"}
		h5 := []string{"raise(P1,7)", "gov(ent:signers=O;min=1)+failing-msg", "wreg(W1,chain-a)", "breg(W1,beacon-a)", "create(A->R1,600nund@10)"}
		opt := map[Tier]Options{
			Quick:    {Depth: 1, Budget: 100 * time.Second, ReplayEvery: 16, FreshJobs: true},
			Thorough: {Depth: 2, Budget: 4 * time.Minute, ReplayEvery: 64, MaxStates: 400000},
		}
		return &Check{ID: "C13",
			Runs: []Run{{S: c13Scenario("entitlement-h1", h1), Opt: opt}, {S: c13Scenario("entitlement-h2", h2), Opt: opt}, {S: c13Scenario("entitlement-empty", h0), Opt: opt},
				{S: c13Scenario("entitlement-moved", h3), Opt: opt}, {S: c13Scenario("entitlement-after-rollback", h4), Opt: opt},
				{S: c13Scenario("entitlement-after-failed-handover", h5), Opt: opt}},
			// a message takes effect only for its entitled signer: anything the model rejects for lack of entitlement must be rejected,
			// a wrong key must never be accepted, and a rejected attempt leaves stores and balances untouched
			Owns:        ownsAny("tx.accept_unexpected:", "tx.entitled_signer_refused:", "tx.nonatomic", "bal:"),
			Assumptions: []string{"the governance authority cannot sign transactions; parameter updates by the authority itself are exercised through real proposals in C16"},
		}
	}
}
