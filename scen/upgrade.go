package scen

import (
	"fmt"
	"time"
	"verif/model"

	"github.com/cosmos/cosmos-sdk/baseapp"
	upgradetypes "github.com/cosmos/cosmos-sdk/x/upgrade/types"

	mainapp "github.com/unification-com/mainchain/app"
	beacontypes "github.com/unification-com/mainchain/x/beacon/types"
	enttypes "github.com/unification-com/mainchain/x/enterprise/types"
	wrkchaintypes "github.com/unification-com/mainchain/x/wrkchain/types"
)

// upgradeAct is the letter "the chain goes through the in-place software upgrade its binary ships a
// handler for" (app/upgrade_handlers.go). It takes two blocks:
//
//  1. in the first block the three custom modules that the upgrade migrates are put back into the layout
//     they have before it - parameters in the x/params subspace, none in the module's own store, recorded
//     consensus version 2, consensus parameters in the legacy subspace - with exactly the values in force,
//     and the upgrade plan is scheduled for the next height (on a live chain: by governance);
//  2. the second block is the upgrade block: the upgrade module's begin blocker runs the handler, which
//     runs the modules' migrations; then every other begin blocker, the (empty) block, the end blockers.
//
// For the reference model an upgrade is nothing: two blocks go by. Parameters, orders, registrations,
// records and streams are what they were, and the begin blockers of the upgrade block decide as they
// would in any other block.
func upgradeAct() Action {
	return Action{Name: "in-place-upgrade(" + mainapp.UpgradeName + ")", Upgrade: true, Count: "upgraded",
		Enabled: func(_ *model.State, aux map[string]int) bool { return aux["upgraded"] < 1 }}
}

func (e *Exec) runUpgrade(a *Action, obs *StepObs, discs *[]Disc) {
	w := e.W
	dt := a.Dt
	if dt == 0 {
		dt = time.Second
	}
	obs.Blocks++
	d, halted := e.beginBlock(dt)
	*discs = append(*discs, d...)
	if halted {
		obs.Halted = true
		return
	}
	ctx := w.Ctx()
	app := w.App
	ep := app.EnterpriseKeeper.GetParams(ctx)
	wp := app.WrkchainKeeper.GetParams(ctx)
	bp := app.BeaconKeeper.GetParams(ctx)
	func() {
		defer func() {
			if p := recover(); p != nil {
				panic(fmt.Sprintf("harness: cannot lay the pre-upgrade state out: %v", p))
			}
		}()
		ctx.KVStore(app.GetKey(enttypes.StoreKey)).Delete(enttypes.ParamsKey)
		ss := app.GetSubspace(enttypes.ModuleName)
		ss.SetParamSet(ctx, &ep)
		ctx.KVStore(app.GetKey(wrkchaintypes.StoreKey)).Delete(wrkchaintypes.ParamsKey)
		ss = app.GetSubspace(wrkchaintypes.ModuleName)
		ss.SetParamSet(ctx, &wp)
		ctx.KVStore(app.GetKey(beacontypes.StoreKey)).Delete(beacontypes.ParamsKey)
		ss = app.GetSubspace(beacontypes.ModuleName)
		ss.SetParamSet(ctx, &bp)
		if cp, err := app.ConsensusParamsKeeper.Get(ctx); err == nil && cp != nil {
			if ls, ok := app.ParamsKeeper.GetSubspace(baseapp.Paramspace); ok {
				if cp.Block != nil {
					ls.Set(ctx, baseapp.ParamStoreKeyBlockParams, cp.Block)
				}
				if cp.Evidence != nil {
					ls.Set(ctx, baseapp.ParamStoreKeyEvidenceParams, cp.Evidence)
				}
				if cp.Validator != nil {
					ls.Set(ctx, baseapp.ParamStoreKeyValidatorParams, cp.Validator)
				}
			}
		}
		vm := app.UpgradeKeeper.GetModuleVersionMap(ctx)
		vm[enttypes.ModuleName], vm[wrkchaintypes.ModuleName], vm[beacontypes.ModuleName] = 2, 2, 2
		app.UpgradeKeeper.SetModuleVersionMap(ctx, vm)
		if err := app.UpgradeKeeper.ScheduleUpgrade(ctx, upgradetypes.Plan{Name: mainapp.UpgradeName, Height: ctx.BlockHeight() + 1}); err != nil {
			panic(err)
		}
	}()
	e.midUpgrade = true
	_, d, halted = e.endBlock()
	e.midUpgrade = false
	*discs = append(*discs, d...)
	if halted {
		obs.Halted = true
		return
	}
	obs.Blocks++
	d, halted = e.beginBlock(3 * time.Second)
	*discs = append(*discs, d...)
	if halted {
		obs.Halted = true
		return
	}
	ctx = w.Ctx()
	vm := app.UpgradeKeeper.GetModuleVersionMap(ctx)
	for _, mod := range []string{enttypes.ModuleName, wrkchaintypes.ModuleName, beacontypes.ModuleName} {
		if vm[mod] != 3 {
			*discs = append(*discs, Disc{Kind: "panic:upgrade_not_run", Detail: fmt.Sprintf("after the upgrade block module %s is recorded at consensus version %d: its migration did not run", mod, vm[mod])})
		}
	}
	h, d, halted := e.endBlock()
	*discs = append(*discs, d...)
	if halted {
		obs.Halted = true
		return
	}
	obs.AppHash = fmt.Sprintf("%X", h)
}
