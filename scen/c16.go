package scen

import (
	"fmt"
	"strings"
	"time"

	sdk "github.com/cosmos/cosmos-sdk/types"
	beacontypes "github.com/unification-com/mainchain/x/beacon/types"
	enttypes "github.com/unification-com/mainchain/x/enterprise/types"
	streamtypes "github.com/unification-com/mainchain/x/stream/types"
	wrkchaintypes "github.com/unification-com/mainchain/x/wrkchain/types"

	"verif/mc"
	"verif/model"
)

// ---- Engine B: validity of every parameter structure on the grid ---------------------------------

func c16Enum(t Tier, ev *Evidence) []Violation {
	var viols []Violation
	hist := map[string]int{}
	bad := func(kind, f string, a ...any) {
		hist["violation/"+kind]++
		if len(viols) < 8 {
			viols = append(viols, Violation{Property: "C16", Scenario: "param-grid", Path: []string{kind}, Disc: Disc{Kind: "params.grid:" + kind, Detail: fmt.Sprintf(f, a...)}})
		}
	}
	sc := &Scenario{Name: "c16-scratch", Genesis: BaseGenesis(mc.AcctSpec{Name: "S1", Coins: Rich()}, mc.AcctSpec{Name: "S2", Coins: Rich()}, mc.AcctSpec{Name: "S3", Coins: Rich()})}
	e := sc.NewExec()
	w := e.W
	auth := mc.ModAddr("gov").String()
	evals, distinct := 0, 0
	u64 := []uint64{0, 1, 2, 3, 1<<63 - 1, 1 << 63, ^uint64(0)}
	denoms := []string{"", " ", "nund", "n", "Nund!", strings.Repeat("a", 129), "a/b:c._-d", "9ab"}
	signers := []string{"", "S1", "S1,S2", "S1,S2,S3", "S1,", "S1,!xyz", "!cosmos1qqqqqqqqqqqqqqqqqqqqqqqqqqqqqqqqnrql8a", "S1,S1", "S1,~S2", "S1~,S2", "~~S1", "S1,S2~~"}
	// enterprise
	for _, d := range denoms {
		for _, min := range u64 {
			for _, lim := range []uint64{0, 1, 100, ^uint64(0)} {
				for _, sg := range signers {
					raw := model.EntParamsRaw{Denom: d, Signers: sg, Min: min, Limit: lim}
					want := model.ValidEnt(raw)
					p := EntParamsReal(w, raw)
					evals++
					distinct++
					v1 := p.Validate() == nil
					v2 := (&enttypes.MsgUpdateParams{Authority: auth, Params: p}).ValidateBasic() == nil
					ctx, _ := w.Ctx().CacheContext()
					before := w.App.EnterpriseKeeper.GetParams(ctx)
					err := w.App.EnterpriseKeeper.SetParams(ctx, p)
					after := w.App.EnterpriseKeeper.GetParams(ctx)
					hist[fmt.Sprintf("enterprise/valid=%v", want)]++
					if v1 != want || v2 != want || (err == nil) != want {
						bad("validity", "enterprise params %+v: Validate ok=%v, MsgUpdateParams.ValidateBasic ok=%v, SetParams ok=%v; the validity rules say valid=%v", raw, v1, v2, err == nil, want)
					}
					if err != nil && after != before {
						bad("stored", "enterprise SetParams(%+v) failed but changed the stored parameters", raw)
					}
					if err == nil && after != p {
						bad("stored", "enterprise SetParams(%+v) succeeded but stored %+v", raw, after)
					}
				}
			}
		}
	}
	// wrkchain / beacon
	small := []uint64{0, 1, 2, ^uint64(0)}
	for _, d := range denoms {
		for _, f1 := range []uint64{0, 1, ^uint64(0)} {
			for _, f2 := range []uint64{0, 1} {
				for _, f3 := range []uint64{0, 7} {
					for _, def := range small {
						for _, max := range small {
							mp := model.AnchorParams{FeeReg: f1, FeeRec: f2, FeePur: f3, Denom: d, Default: def, Max: max}
							want := model.ValidAnchor(mp)
							evals += 2
							distinct++
							hist[fmt.Sprintf("anchor/valid=%v", want)]++
							{
								p := wrkchaintypes.NewParams(f1, f2, f3, d, def, max)
								v1 := p.Validate() == nil
								v2 := (&wrkchaintypes.MsgUpdateParams{Authority: auth, Params: p}).ValidateBasic() == nil
								ctx, _ := w.Ctx().CacheContext()
								before := w.App.WrkchainKeeper.GetParams(ctx)
								err := w.App.WrkchainKeeper.SetParams(ctx, p)
								after := w.App.WrkchainKeeper.GetParams(ctx)
								if v1 != want || v2 != want || (err == nil) != want {
									bad("validity", "wrkchain params %+v: Validate ok=%v, ValidateBasic ok=%v, SetParams ok=%v; rules say valid=%v", mp, v1, v2, err == nil, want)
								}
								if (err != nil && after != before) || (err == nil && after != p) {
									bad("stored", "wrkchain SetParams(%+v): err=%v, stored %+v (before %+v)", mp, err, after, before)
								}
							}
							{
								p := beacontypes.NewParams(f1, f2, f3, d, def, max)
								v1 := p.Validate() == nil
								v2 := (&beacontypes.MsgUpdateParams{Authority: auth, Params: p}).ValidateBasic() == nil
								ctx, _ := w.Ctx().CacheContext()
								before := w.App.BeaconKeeper.GetParams(ctx)
								err := w.App.BeaconKeeper.SetParams(ctx, p)
								after := w.App.BeaconKeeper.GetParams(ctx)
								if v1 != want || v2 != want || (err == nil) != want {
									bad("validity", "beacon params %+v: Validate ok=%v, ValidateBasic ok=%v, SetParams ok=%v; rules say valid=%v", mp, v1, v2, err == nil, want)
								}
								if (err != nil && after != before) || (err == nil && after != p) {
									bad("stored", "beacon SetParams(%+v): err=%v, stored %+v (before %+v)", mp, err, after, before)
								}
							}
						}
					}
				}
			}
		}
	}
	// stream
	for _, r := range []string{"", "-0.000000000000000001", "0.000000000000000000", "0.010000000000000000", "0.999999999999999999", "1.000000000000000000", "1.000000000000000001", "2.000000000000000000"} {
		want := model.ValidFeeRate(r)
		p := streamtypes.Params{ValidatorFee: DecFromString(r)}
		evals++
		distinct++
		hist[fmt.Sprintf("stream/valid=%v", want)]++
		v1 := p.Validate() == nil
		v2 := (&streamtypes.MsgUpdateParams{Authority: auth, Params: p}).ValidateBasic() == nil
		ctx, _ := w.Ctx().CacheContext()
		before := w.App.StreamKeeper.GetParams(ctx)
		var err error
		func() {
			defer func() {
				if pn := recover(); pn != nil {
					err = fmt.Errorf("panic: %v", pn)
				}
			}()
			err = w.App.StreamKeeper.SetParams(ctx, p)
		}()
		after := w.App.StreamKeeper.GetParams(ctx)
		if v1 != want || v2 != want || (err == nil) != want {
			bad("validity", "stream validator fee %q: Validate ok=%v, ValidateBasic ok=%v, SetParams ok=%v; rules say valid=%v", r, v1, v2, err == nil, want)
		}
		if err != nil && !after.ValidatorFee.Equal(before.ValidatorFee) {
			bad("stored", "stream SetParams(%q) failed but changed the stored fee", r)
		}
	}
	ev.Coverage["grid_evaluations"] = evals
	ev.Coverage["grid_distinct"] = distinct
	ev.Coverage["grid_outcomes"] = hist
	ev.Coverage["grid_rule"] = "complete product of field alphabets per module (uint64 in {0,1,2,3,2^63-1,2^63,2^64-1}; denominations empty/blank/valid/too short/illegal chars/129 chars/with separators/leading digit; signer lists empty, 1-3 valid, trailing comma, malformed entry, foreign bech32 prefix, duplicate; fee rate nil,-1e-18,0,0.01,1-1e-18,1,1+1e-18,2): Params.Validate, MsgUpdateParams.ValidateBasic and Keeper.SetParams (stored value unchanged on error) against the validity predicate transcribed from the statement"
	return viols
}

// feeProbe (per block): the fee check must follow the parameters in force: a record transaction
// offering the current record fee is admitted by CheckTx, one offering a different amount is not.
func feeProbe(e *Exec) []Disc {
	var out []Disc
	id := ownedID(&e.M.Wrk, "W1")
	if id == 0 {
		return nil
	}
	cur := e.M.Wrk.P.FeeRec
	// a rejected CheckTx leaves the check state alone, an admitted one advances the signer's sequence
	// there until the next commit: the wrong amounts are probed first (in both CheckTx modes), the right
	// amount last
	for _, pr := range []struct {
		off  uint64
		mode string
	}{{cur + 1, "new"}, {cur + 1, "recheck"}, {cur - 1, "recheck"}, {cur, "new"}} {
		if pr.off == 0 {
			continue
		}
		msg := model.Msg{Kind: model.WrkRec, From: "W1", ID: id, H: e.M.Wrk.Ents[id].Last + 1, S: []string{"0xprobe", "", "", "", ""}}
		bz, err := e.W.Sign(BuildTx(e.W, model.Tx{Msgs: []model.Msg{msg}, Fee: fee(pr.off)}))
		must(err)
		var r mc.TxRes
		if pr.mode == "new" {
			r = e.W.CheckTx(bz)
		} else {
			r = e.W.ReCheckTx(bz) // what the mempool runs after every commit for the transactions it still holds
		}
		if (r.Code == 0) != (pr.off == cur) {
			out = append(out, disc("params.feeprobe", "record fee parameter is %d: CheckTx (%s) of a record offering %d nund returned code %d (%s)", cur, pr.mode, pr.off, r.Code, firstLine(r.Log)))
		}
	}
	return out
}

func c16Scenario() *Scenario {
	g := BaseGenesis(
		mc.AcctSpec{Name: "S1", Coins: Coins(1000, 0)}, mc.AcctSpec{Name: "S2", Coins: Coins(1000, 0)}, mc.AcctSpec{Name: "P1", Coins: Coins(1000, 0)},
		mc.AcctSpec{Name: "W1", Coins: Rich()}, mc.AcctSpec{Name: "A", Coins: Rich()}, mc.AcctSpec{Name: "R1", Coins: Coins(1000, 0)},
		mc.AcctSpec{Name: "O", Coins: Rich()},
	)
	g.Whitelist = []string{"P1"}
	s := &Scenario{Name: "params-live", Genesis: g, KeyTimeNs: false, Visit: feeProbe, AfterTx: streamConservation}
	ms := time.Millisecond
	gov2 := func(name, kind string, p any) Action {
		return Action{Name: name, Gov: &GovSpec{Kind: kind, Params: p}, Count: "gov", Enabled: func(_ *model.State, aux map[string]int) bool { return aux["gov"] < 2 }}
	}
	ent := func(sg string, min, lim uint64) model.EntParamsRaw {
		return model.EntParamsRaw{Denom: mc.Nund, Signers: sg, Min: min, Limit: lim}
	}
	anch := func(a, b, c, def, max uint64) model.AnchorParams {
		return model.AnchorParams{FeeReg: a, FeeRec: b, FeePur: c, Denom: mc.Nund, Default: def, Max: max}
	}
	s.Actions = []Action{
		raise("P1", 7, 2), decide("S1", 1, 2), decide("S2", 1, 2), decide("S1", 1, 3),
		regAct(model.WrkReg, "W1", []string{"chain-a", "Chain", "0xgen", "geth"}, 2),
		wrecAct("wrec(W1,#1,next)", "W1", 1, func(l uint64) uint64 { return l + 1 }),
		purAct("wpur(W1,#1,1)", model.WrkPur, "W1", 1, 1, ""), purAct("wpur(W1,#1,3)", model.WrkPur, "W1", 1, 3, ""),
		// the BEACON side of the limits, with purchases that do not pass the ante check (nested in authz MsgExec)
		regAct(model.BcnReg, "W1", []string{"beacon-a", "Beacon"}, 2),
		purAct("bpur(W1,#1,2)", model.BcnPur, "W1", 1, 2, ""),
		purAct("exec(O,bpur(W1,#1,1))", model.BcnPur, "W1", 1, 1, "O"), purAct("exec(O,wpur(W1,#1,1))", model.WrkPur, "W1", 1, 1, "O"),
		gov2("gov(bcn:default=1;max=3)", model.BcnParams, anch(31, 5, 7, 1, 3)),
		{Name: "create(A->R1,600nund@10)", Dt: ms, Txs: tx1(model.Msg{Kind: model.StrCreate, From: "A", To: "R1", Den: mc.Nund, Amt: "600", Rate: 10})},
		{Name: "claim(R1<-A)", Dt: ms, Txs: tx1(model.Msg{Kind: model.StrClaim, From: "R1", To: "A"})},
		{Name: "wait(30s)", Dt: 30 * time.Second, Enabled: func(m *model.State, _ map[string]int) bool { return elapsed(m) < 200 }},
		gov2("gov(ent:signers=S1,S2;min=2)", model.EntParams, ent("S1,S2", 2, 100)),
		gov2("gov(ent:signers=S2;min=1)", model.EntParams, ent("S2", 1, 100)),
		gov2("gov(ent:limit=10)", model.EntParams, ent("S1", 1, 10)),
		// decision time limits no duration type can hold: "never stale" must stay never
		gov2("gov(ent:limit=10^10)", model.EntParams, ent("S1,S2", 2, 10_000_000_000)),
		gov2("gov(ent:limit=2^64-1)", model.EntParams, ent("S1,S2", 2, ^uint64(0))),
		gov2("gov(ent:min=2^63,INVALID)", model.EntParams, ent("S1", 1<<63, 100)),
		gov2("gov(ent:min=2^64-1,INVALID)", model.EntParams, ent("S1", ^uint64(0), 100)),
		gov2("gov(ent:signers=S1,xyz,INVALID)", model.EntParams, ent("S1,!xyz", 1, 100)),
		gov2("gov(ent:min=2of1,INVALID)", model.EntParams, ent("S1", 2, 100)),
		gov2("gov(ent:signers=S1,<space>S2;min=2,INVALID)", model.EntParams, ent("S1,~S2", 2, 100)),
		// valid updates inside proposals whose execution is rolled back as a whole: nothing may take effect
		failing(gov2("gov(ent:signers=S2;min=1)+failing-msg", model.EntParams, ent("S2", 1, 100))),
		failing(gov2("gov(wrk:fees=5/1/1;default=3;max=6)+failing-msg", model.WrkParams, anch(5, 1, 1, 3, 6))),
		failing(gov2("gov(stream:fee=0.5)+failing-msg", model.StrParams, "0.500000000000000000")),
		gov2("gov(wrk:fees=5/1/1;default=3;max=6)", model.WrkParams, anch(5, 1, 1, 3, 6)),
		gov2("gov(wrk:max=2)", model.WrkParams, anch(24, 2, 3, 2, 2)),
		// a maximum far above the shipped default: purchases are bounded by the parameter in force, not by a constant
		gov2("gov(wrk:max=10^6)", model.WrkParams, anch(24, 2, 3, 2, 1_000_000)),
		purAct("wpur(W1,#1,700000)", model.WrkPur, "W1", 1, 700_000, ""),
		gov2("gov(wrk:default=5>max=3,INVALID)", model.WrkParams, anch(24, 2, 3, 5, 3)),
		gov2("gov(wrk:feerec=0,INVALID)", model.WrkParams, anch(24, 0, 3, 2, 4)),
		gov2("gov(bcn:fees=6/2/2)", model.BcnParams, anch(6, 2, 2, 2, 4)),
		gov2("gov(stream:fee=0.5)", model.StrParams, "0.500000000000000000"),
		gov2("gov(stream:fee=0)", model.StrParams, "0.000000000000000000"),
		gov2("gov(stream:fee=1+1e-18,INVALID)", model.StrParams, "1.000000000000000001"),
	}
	gr := Action{Name: "grant(W1->O,wpur+bpur)", Dt: ms, PrefixOnly: true, Txs: func(*model.State) []model.Tx {
		return []model.Tx{{Msgs: []model.Msg{{Kind: model.AuthzGrant, From: "W1", To: "O", URL: model.WrkPur}, {Kind: model.AuthzGrant, From: "W1", To: "O", URL: model.BcnPur}}}}
	}}
	s.Actions = append(s.Actions, gr)
	// the in-place software upgrade moves the parameters from x/params into the modules' own stores: the values in force stay in force
	s.Actions = append(s.Actions, upgradeAct())
	s.Prefix = []string{gr.Name}
	// behaviour that must follow the new values is attributed to C16 only on paths that contain an update
	follow := []string{"ent.order", "anch.limit", "anch.storage", "tx.accept_unexpected:wrk.pur", "tx.reject_unexpected:wrk.pur", "tx.accept_unexpected:bcn.pur", "tx.reject_unexpected:bcn.pur", "str.feesplit", "tx.accept_unexpected:ent.decide", "tx.reject_unexpected:ent.decide"}
	s.PostProcess = func(e *Exec, discs []Disc) []Disc {
		if e.Aux["gov"] < 1 {
			return discs
		}
		for i := range discs {
			for _, f := range follow {
				if strings.HasPrefix(discs[i].Kind, f) {
					discs[i].Kind = "params.not_in_effect:" + discs[i].Kind
				}
			}
		}
		return discs
	}
	return s
}

func init() {
	Checks["C16"] = func() *Check {
		return &Check{ID: "C16",
			Runs: []Run{{S: c16Scenario(), Opt: map[Tier]Options{
				Quick:    {Depth: 4, Budget: 150 * time.Second, ReplayEvery: 16},
				Thorough: {Depth: 6, Budget: 15 * time.Minute, ReplayEvery: 32, MaxStates: 400000},
			}}},
			Extra:       c16Enum,
			Owns:        ownsAny("params."),
			Assumptions: []string{"the governance authority acts through real proposals (submit + vote + EndBlock execution)", "discrepancies in tally / limits / fee split are attributed to this property only on histories that contain a parameter update"},
		}
	}
}

var _ = sdk.Coin{}
