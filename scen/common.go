package scen

import (
	"fmt"
	"strings"
	"time"

	sdk "github.com/cosmos/cosmos-sdk/types"

	"verif/mc"
	"verif/model"
)

var GenesisTime = time.Unix(1_700_000_000, 0).UTC()

func Rich() sdk.Coins {
	return sdk.NewCoins(sdk.NewInt64Coin(mc.Nund, 1_000_000_000_000), sdk.NewInt64Coin(mc.Tok, 1_000_000_000))
}

func Coins(nund, tok int64) sdk.Coins {
	c := sdk.NewCoins()
	if nund > 0 {
		c = c.Add(sdk.NewInt64Coin(mc.Nund, nund))
	}
	if tok > 0 {
		c = c.Add(sdk.NewInt64Coin(mc.Tok, tok))
	}
	return c
}

// BaseGenesis: small prime fees so that cross-module mix-ups are visible, tiny storage limits.
func BaseGenesis(accts ...mc.AcctSpec) mc.GenesisSpec {
	g := mc.GenesisSpec{
		Time:      GenesisTime,
		Accounts:  append([]mc.AcctSpec{{Name: "V", Coins: Rich()}}, accts...),
		EntSigner: []string{"S1"}, MinAccept: 1, Limit: 100, StartPO: 1,
		Wrk:       mc.AnchorParams{FeeReg: 24, FeeRec: 2, FeePur: 3, Denom: mc.Nund, Default: 2, Max: 4, StartID: 1},
		Beacon:    mc.AnchorParams{FeeReg: 31, FeeRec: 5, FeePur: 7, Denom: mc.Nund, Default: 2, Max: 4, StartID: 1},
		StreamFee: sdk.NewDecWithPrec(1, 2),
	}
	return g
}

func tx1(m model.Msg) func(*model.State) []model.Tx {
	return func(*model.State) []model.Tx { return []model.Tx{{Msgs: []model.Msg{m}}} }
}

func fee(n uint64) map[string]string { return map[string]string{mc.Nund: fmt.Sprint(n)} }

// elapsed seconds since genesis in the model
func elapsed(m *model.State) int64 { return m.NowS() - GenesisTime.Unix() }

func ownsAny(prefixes ...string) func(string) bool {
	return func(k string) bool {
		for _, p := range prefixes {
			if strings.HasPrefix(k, p) {
				return true
			}
		}
		return false
	}
}

func amt(n int64) string { return fmt.Sprint(n) }

// pairLetters: every ordered pair (a, b) of the given single-block letters as one block that carries the
// transactions of a followed by those of b (the 0 s block-time gap: two operations that meet in the same
// block, in both orders, including the same operation twice). The transactions of both halves are built
// from the model state before the block; the model then executes them one after the other.
func pairLetters(core ...Action) []Action {
	var out []Action
	for i := range core {
		for j := range core {
			a, b := core[i], core[j]
			if a.Gov != nil || b.Gov != nil || a.Txs == nil || b.Txs == nil {
				continue
			}
			en := func(m *model.State, aux map[string]int) bool {
				return (a.Enabled == nil || a.Enabled(m, aux)) && (b.Enabled == nil || b.Enabled(m, aux))
			}
			out = append(out, Action{Name: a.Name + ";" + b.Name, Dt: a.Dt, NextTime: a.NextTime, Enabled: en,
				Txs: func(m *model.State) []model.Tx { return append(append([]model.Tx{}, a.Txs(m)...), b.Txs(m)...) }})
		}
	}
	return out
}
