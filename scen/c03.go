package scen

import (
	"crypto/sha256"
	"fmt"
	"time"

	enttypes "github.com/unification-com/mainchain/x/enterprise/types"

	"verif/mc"
	"verif/model"
)

// orderLifecycle is the model-independent part of the C03 oracle: status only moves
// raised->accepted->completed or raised->rejected, and rejected/completed orders are
// byte-identical forever after.
func orderLifecycle(e *Exec) []Disc {
	var out []Disc
	if e.M.Obs == nil {
		e.M.Obs = map[string]string{}
	}
	ctx := e.W.Ctx()
	store := ctx.KVStore(e.W.App.GetKey(enttypes.StoreKey))
	for _, po := range e.W.App.EnterpriseKeeper.GetAllPurchaseOrders(ctx) {
		k := fmt.Sprintf("po:%d", po.Id)
		prev := e.M.Obs[k+":status"]
		cur := fmt.Sprint(int(po.Status))
		legal := prev == "" || prev == cur || (prev == "1" && (cur == "2" || cur == "3")) || (prev == "2" && cur == "4")
		// an order first seen at "completed" is fine only if it could have passed through accepted unseen
		// (impossible here: a visit follows every block), so completed must come from accepted
		if prev == "" && cur != "1" && cur != "2" && cur != "3" {
			legal = false
		}
		if prev == "1" && cur == "4" {
			legal = false
		}
		if !legal {
			out = append(out, disc("ent.transition", "order %d moved from status %s to %s", po.Id, prev, cur))
		}
		e.M.Obs[k+":status"] = cur
		if po.Status == enttypes.StatusRejected || po.Status == enttypes.StatusCompleted {
			raw := store.Get(enttypes.PurchaseOrderKey(po.Id))
			d := fmt.Sprintf("%x", sha256.Sum256(raw))
			if old, ok := e.M.Obs[k+":digest"]; ok && old != d {
				out = append(out, disc("ent.terminal_changed", "terminal order %d (status %s) changed after it was rejected/completed", po.Id, cur))
			}
			e.M.Obs[k+":digest"] = d
		}
	}
	return out
}

func decide(signer string, id uint64, dec int) Action {
	dn := map[int]string{2: "accept", 3: "reject"}[dec]
	return Action{Name: fmt.Sprintf("%s(%s,#%d)", dn, signer, id), Dt: time.Millisecond,
		Txs:     tx1(model.Msg{Kind: model.EntDecide, From: signer, ID: id, N: uint64(dec)}),
		Enabled: func(m *model.State, _ map[string]int) bool { _, ok := m.Ent.Orders[id]; return ok }}
}

func raise(p string, a int64, maxOrders int) Action {
	return Action{Name: fmt.Sprintf("raise(%s,%d)", p, a), Dt: time.Millisecond,
		Txs:     tx1(model.Msg{Kind: model.EntRaise, From: p, Den: mc.Nund, Amt: amt(a)}),
		Enabled: func(m *model.State, _ map[string]int) bool { return len(m.Ent.Orders) < maxOrders }}
}

func entGov(name string, signers string, min, limit uint64, counter string, max int) Action {
	return Action{Name: name, Gov: &GovSpec{Kind: model.EntParams, Params: model.EntParamsRaw{Denom: mc.Nund, Signers: signers, Min: min, Limit: limit}}, Count: counter,
		Enabled: func(_ *model.State, aux map[string]int) bool { return aux[counter] < max }}
}

// decideAndGov: a decision delivered in the first block of a governance macro-step, so that the tally
// of the next block begin and the parameter change of the same block's end fall around the order's
// acceptance (threshold / signer-set change between acceptance and minting).
func decideAndGov(signer string, id uint64, dec int, gname, signers string, min, limit uint64) Action {
	d := decide(signer, id, dec)
	a := entGov(d.Name+"&"+gname, signers, min, limit, "gov", 1)
	a.Gov.Txs = d.Txs
	a.Enabled = func(m *model.State, aux map[string]int) bool { _, ok := m.Ent.Orders[id]; return ok && aux["gov"] < 1 }
	return a
}

// failing turns a governance letter into a proposal that passes the vote and is rolled back as a whole
// when it is executed (its last message fails).
func failing(a Action) Action {
	g := *a.Gov
	g.FailAfter = true
	a.Gov = &g
	return a
}

func c03Scenario(name string, signers []string, min uint64, fullGov bool) *Scenario {
	g := BaseGenesis(
		mc.AcctSpec{Name: "S1", Coins: Coins(1000, 0)}, mc.AcctSpec{Name: "S2", Coins: Coins(1000, 0)}, mc.AcctSpec{Name: "S3", Coins: Coins(1000, 0)},
		mc.AcctSpec{Name: "P1", Coins: Coins(1000, 0)}, mc.AcctSpec{Name: "P2", Coins: Coins(1000, 0)}, mc.AcctSpec{Name: "O", Coins: Coins(1000, 0)},
	)
	g.EntSigner, g.MinAccept, g.Limit, g.Whitelist = signers, min, 100, []string{"P1"}
	s := &Scenario{Name: name, Genesis: g, KeyTimeNs: false, Visit: orderLifecycle, VisitMidUpgrade: true}
	s.Actions = []Action{
		raise("P1", 7, 2), raise("P2", 11, 2), raise("O", 13, 2),
	}
	for _, sg := range []string{"S1", "S2", "S3"} {
		for id := uint64(1); id <= 2; id++ {
			s.Actions = append(s.Actions, decide(sg, id, 2), decide(sg, id, 3))
		}
	}
	s.Actions = append(s.Actions,
		decide("O", 1, 2),
		// the same signer again, its address spelled in upper case (a legal bech32 spelling of the same account)
		upper(decide("S1", 1, 2)), upper(decide("S2", 1, 3)),
		Action{Name: "accept(S1,#9)", Dt: time.Millisecond, Txs: tx1(model.Msg{Kind: model.EntDecide, From: "S1", ID: 9, N: 2})},
		Action{Name: "whitelist(S1,+P2)", Dt: time.Millisecond, Txs: tx1(model.Msg{Kind: model.EntWhitelist, From: "S1", To: "P2", N: 1})},
		Action{Name: "whitelist(S2,-P1)", Dt: time.Millisecond, Txs: tx1(model.Msg{Kind: model.EntWhitelist, From: "S2", To: "P1", N: 2})},
		Action{Name: "whitelist(O,+O)", Dt: time.Millisecond, Txs: tx1(model.Msg{Kind: model.EntWhitelist, From: "O", To: "O", N: 1})},
	)
	s.Actions = append(s.Actions, timeSteps(250, time.Second, 99*time.Second, 100*time.Second)...)
	// the in-place software upgrade: the begin blockers of the upgrade block decide on the orders as in any other block
	s.Actions = append(s.Actions, upgradeAct())
	if !fullGov {
		// the small genesis also carries the requests the chain must refuse
		ms := time.Millisecond
		s.Actions = append(s.Actions,
			Action{Name: "raise(P1,5tok)", Dt: ms, Txs: tx1(model.Msg{Kind: model.EntRaise, From: "P1", Den: mc.Tok, Amt: "5"})},
			Action{Name: "raise(P1,0)", Dt: ms, Txs: tx1(model.Msg{Kind: model.EntRaise, From: "P1", Den: mc.Nund, Amt: "0"})},
			Action{Name: "decide(S1,#1,completed)", Dt: ms, Txs: tx1(model.Msg{Kind: model.EntDecide, From: "S1", ID: 1, N: 4})},
			Action{Name: "decide(S1,#1,raised)", Dt: ms, Txs: tx1(model.Msg{Kind: model.EntDecide, From: "S1", ID: 1, N: 1})},
			Action{Name: "whitelist(S1,+P1)", Dt: ms, Txs: tx1(model.Msg{Kind: model.EntWhitelist, From: "S1", To: "P1", N: 1})},
			Action{Name: "whitelist(S1,-O)", Dt: ms, Txs: tx1(model.Msg{Kind: model.EntWhitelist, From: "S1", To: "O", N: 2})},
			Action{Name: "whitelist(S1,?P2,action=3)", Dt: ms, Txs: tx1(model.Msg{Kind: model.EntWhitelist, From: "S1", To: "P2", N: 3})},
		)
	}
	if fullGov {
		s.Actions = append(s.Actions,
			entGov("gov(signers=S1,S2;min=2)", "S1,S2", 2, 100, "gov", 1),
			entGov("gov(signers=S1;min=1)", "S1", 1, 100, "gov", 1),
			entGov("gov(signers=S1,S2,S3;min=3)", "S1,S2,S3", 3, 100, "gov", 1),
			entGov("gov(signers=S1,S2,S3;min=1)", "S1,S2,S3", 1, 100, "gov", 1),
			entGov("gov(limit=10)", "S1,S2,S3", 2, 10, "gov", 1),
			entGov("gov(limit=2^63)", "S1,S2,S3", 2, 1<<63, "gov", 1),
			failing(entGov("gov(signers=S1,O;min=1)+failing-msg", "S1,O", 1, 100, "gov", 1)),
			decideAndGov("S2", 1, 2, "gov(signers=S1,S2,S3;min=3)", "S1,S2,S3", 3, 100),
			decideAndGov("S2", 1, 2, "gov(signers=S1;min=1)", "S1", 1, 100),
			decideAndGov("S2", 1, 3, "gov(signers=S1,S2,S3;min=1)", "S1,S2,S3", 1, 100),
		)
	}
	return s
}

// c03SameBlock: decisions, whitelist changes and raises that meet in one block, in both orders.
func c03SameBlock() *Scenario {
	g := BaseGenesis(
		mc.AcctSpec{Name: "S1", Coins: Coins(1000, 0)}, mc.AcctSpec{Name: "S2", Coins: Coins(1000, 0)}, mc.AcctSpec{Name: "S3", Coins: Coins(1000, 0)},
		mc.AcctSpec{Name: "P1", Coins: Coins(1000, 0)}, mc.AcctSpec{Name: "P2", Coins: Coins(1000, 0)},
	)
	g.EntSigner, g.MinAccept, g.Limit, g.Whitelist = []string{"S1", "S2", "S3"}, 2, 100, []string{"P1"}
	s := &Scenario{Name: "po-same-block", Genesis: g, KeyTimeNs: false, Visit: orderLifecycle}
	core := []Action{decide("S1", 1, 2), decide("S2", 1, 2), decide("S2", 1, 3), decide("S3", 1, 3),
		{Name: "whitelist(S2,-P1)", Dt: time.Millisecond, Txs: tx1(model.Msg{Kind: model.EntWhitelist, From: "S2", To: "P1", N: 2})}}
	for i := range core {
		core[i].Enabled = nil // a decision on an order raised earlier in the same block is a legal letter too
	}
	r1 := raise("P1", 7, 2)
	s.Actions = append(s.Actions, r1, raise("P2", 11, 2),
		Action{Name: "whitelist(S1,+P2)", Dt: time.Millisecond, Txs: tx1(model.Msg{Kind: model.EntWhitelist, From: "S1", To: "P2", N: 1})})
	s.Actions = append(s.Actions, core...)
	s.Actions = append(s.Actions, pairLetters(core...)...)
	s.Actions = append(s.Actions, pairLetters(r1, core[0])[1], pairLetters(r1, core[4])[1], pairLetters(core[4], r1)[1]) // raise;accept  raise;whitelist-  whitelist-;raise
	s.Actions = append(s.Actions, timeSteps(250, time.Second, 100*time.Second)...)
	return s
}

var c03Owns = ownsAny("ent.order", "ent.locked", "ent.whitelist", "ent.transition", "ent.terminal_changed", "tx.accept_unexpected:ent.", "tx.reject_unexpected:ent.")

// c03OutOfOrder: orders decided out of the order they were raised in. The second order has been accepted and
// minted before anything happens to the first (queues, cursors and counters keyed on "ids only grow").
func c03OutOfOrder() *Scenario {
	s := c03Scenario("po-out-of-order", []string{"S1"}, 1, false)
	s.Prefix = []string{"whitelist(S1,+P2)", "raise(P1,7)", "raise(P2,11)", "accept(S1,#2)", "wait(1s)", "wait(1s)"}
	return s
}

// c03DecidedThenGov: an order that already carries one accept and one reject when governance changes the
// signer set or the threshold - the old decisions are counted against the new parameters.
func c03DecidedThenGov() *Scenario {
	s := c03Scenario("po-decided-then-gov", []string{"S1", "S2", "S3"}, 2, true)
	s.Prefix = []string{"raise(P1,7)", "accept(S1,#1)", "reject(S2,#1)"}
	return s
}

func init() {
	Checks["C03"] = func() *Check {
		return &Check{
			ID: "C03",
			Runs: []Run{
				{S: c03Scenario("po-3of3-min2", []string{"S1", "S2", "S3"}, 2, true), Opt: map[Tier]Options{
					Quick:    {Depth: 5, Budget: 150 * time.Second, ReplayEvery: 16},
					Thorough: {Depth: 6, Budget: 12 * time.Minute, ReplayEvery: 16, MaxStates: 500000},
				}},
				{S: c03SameBlock(), Opt: map[Tier]Options{
					Quick:    {Depth: 3, Budget: 60 * time.Second, ReplayEvery: 16},
					Thorough: {Depth: 5, Budget: 8 * time.Minute, ReplayEvery: 16, MaxStates: 300000},
				}},
				{S: c03Scenario("po-1of1", []string{"S1"}, 1, false), Opt: map[Tier]Options{
					Quick:    {Depth: 4, Budget: 60 * time.Second, ReplayEvery: 8},
					Thorough: {Depth: 6, Budget: 5 * time.Minute, ReplayEvery: 16, MaxStates: 300000},
				}},
				{S: c03OutOfOrder(), Opt: map[Tier]Options{
					Quick:    {Depth: 4, Budget: 60 * time.Second, ReplayEvery: 8},
					Thorough: {Depth: 6, Budget: 5 * time.Minute, ReplayEvery: 16, MaxStates: 300000},
				}},
				{S: c03DecidedThenGov(), Opt: map[Tier]Options{
					Quick:    {Depth: 3, Budget: 60 * time.Second, ReplayEvery: 8},
					Thorough: {Depth: 5, Budget: 5 * time.Minute, ReplayEvery: 16, MaxStates: 300000},
				}},
			},
			Owns:        c03Owns,
			Assumptions: []string{"decisions of signers removed later keep counting: the code (and the statement) checks authorisation at decision time", "MinAccepts beyond 2^63 is C16's subject"},
		}
	}
}
