package scen

import (
	"fmt"
	"math/big"
	"sort"
	"strings"
	"time"

	abci "github.com/cometbft/cometbft/abci/types"
	sdk "github.com/cosmos/cosmos-sdk/types"
	enttypes "github.com/unification-com/mainchain/x/enterprise/types"

	"verif/mc"
	"verif/model"
)

func evAttr(ev abci.Event, key string) string {
	for _, a := range ev.Attributes {
		if a.Key == key {
			return a.Value
		}
	}
	return ""
}

// supplyOracle (C02), per block, from the implementation's own state and events only:
// delta supply = sum of orders that became completed in this block - burns, per denomination;
// every coinbase event is in BeginBlock, minted by the enterprise module, and matches a completing order.
func supplyOracle(e *Exec) []Disc {
	var out []Disc
	if e.M.Obs == nil {
		e.M.Obs = map[string]string{}
	}
	ctx := e.W.Ctx()
	// orders completed in this block
	completed := map[string]*big.Int{}
	var compAmts []string
	for _, po := range e.W.App.EnterpriseKeeper.GetAllPurchaseOrders(ctx) {
		k := fmt.Sprintf("sup:po:%d", po.Id)
		cur := fmt.Sprint(int(po.Status))
		if po.Status == enttypes.StatusCompleted && e.M.Obs[k] != cur {
			if completed[po.Amount.Denom] == nil {
				completed[po.Amount.Denom] = new(big.Int)
			}
			completed[po.Amount.Denom].Add(completed[po.Amount.Denom], po.Amount.Amount.BigInt())
			compAmts = append(compAmts, po.Amount.String())
		}
		e.M.Obs[k] = cur
	}
	burns := map[string]*big.Int{}
	var minted []string
	scan := func(where string, evs []abci.Event) {
		for _, ev := range evs {
			switch ev.Type {
			case "coinbase":
				minter, amount := evAttr(ev, "minter"), evAttr(ev, "amount")
				if where != "BeginBlock" {
					out = append(out, disc("supply.event", "coins minted outside block begin (%s): minter %s amount %s", where, NameOfBech(e.W, minter), amount))
				}
				if minter != mc.ModAddr("enterprise").String() {
					out = append(out, disc("supply.event", "coins minted by %s (%s): %s", NameOfBech(e.W, minter), where, amount))
				}
				minted = append(minted, amount)
			case "burn":
				cs, err := sdk.ParseCoinsNormalized(evAttr(ev, "amount"))
				if err == nil {
					for _, c := range cs {
						if burns[c.Denom] == nil {
							burns[c.Denom] = new(big.Int)
						}
						burns[c.Denom].Add(burns[c.Denom], c.Amount.BigInt())
					}
				}
			}
		}
	}
	scan("BeginBlock", e.BeginEvents)
	for i, t := range e.TxEvents {
		scan(fmt.Sprintf("DeliverTx %d", i), t)
	}
	scan("EndBlock", e.EndEvents)
	sort.Strings(minted)
	sort.Strings(compAmts)
	if strings.Join(minted, ",") != strings.Join(compAmts, ",") {
		out = append(out, disc("supply.event", "coinbase events %v do not match the orders completed in this block %v", minted, compAmts))
	}
	for _, d := range []string{mc.Nund, mc.Tok} {
		cur := e.W.App.BankKeeper.GetSupply(ctx, d).Amount.BigInt()
		k := "sup:" + d
		if prev, ok := e.M.Obs[k]; ok {
			p, _ := new(big.Int).SetString(prev, 10)
			want := new(big.Int).Set(p)
			if c := completed[d]; c != nil {
				want.Add(want, c)
			}
			if b := burns[d]; b != nil {
				want.Sub(want, b)
			}
			if cur.Cmp(want) != 0 {
				out = append(out, disc("supply", "supply of %s went from %s to %s in a block whose completed orders sum to %v and burns to %v", d, p, cur, completed[d], burns[d]))
			}
		}
		e.M.Obs[k] = cur.String()
	}
	return out
}

type unionOpts struct {
	name     string
	govOrder bool // the order raised by the governance module account is part of the initial state
	extreme  bool // C14: extreme amounts, every account kind, denom change
	multi    bool // C14: multi-message transactions with a failing k-th message
}

func unionGenesis() mc.GenesisSpec {
	far := GenesisTime.Unix() + 1_000_000_000
	g := BaseGenesis(
		mc.AcctSpec{Name: "S1", Coins: Coins(1000, 0)},
		mc.AcctSpec{Name: "P1", Coins: Coins(1000, 0)},
		mc.AcctSpec{Name: "PV", Kind: mc.Continuous, Coins: Coins(1000, 0), Vesting: Coins(1000, 0), VestEnd: far},
		mc.AcctSpec{Name: "PD", Kind: mc.Delayed, Coins: Coins(1000, 0), Vesting: Coins(1000, 0), VestEnd: far},
		mc.AcctSpec{Name: "PL", Kind: mc.PermLocked, Coins: Coins(1000, 0), Vesting: Coins(1000, 0)},
		mc.AcctSpec{Name: "W1", Coins: Rich()}, mc.AcctSpec{Name: "A", Coins: Rich()},
		mc.AcctSpec{Name: "R1", Coins: Coins(1000, 0)}, mc.AcctSpec{Name: "R2", Coins: Coins(1000, 0)}, mc.AcctSpec{Name: "O", Coins: Rich()},
	)
	g.Whitelist = []string{"P1", "PV", "PD", "PL", model.ModGov}
	return g
}

func unionScenario(o unionOpts) *Scenario {
	s := &Scenario{Name: o.name, Genesis: unionGenesis(), KeyTimeNs: false}
	ms := time.Millisecond
	one := func(name string, tx model.Tx) Action {
		return Action{Name: name, Dt: ms, Txs: func(*model.State) []model.Tx { return []model.Tx{tx} }}
	}
	add := func(a ...Action) { s.Actions = append(s.Actions, a...) }
	maxOrders := 3
	add(raise("P1", 7, maxOrders), raise("PV", 11, maxOrders))
	for id := uint64(1); id <= 3; id++ {
		add(decide("S1", id, 2))
	}
	add(decide("S1", 1, 3))
	add(regAct(model.WrkReg, "W1", []string{"chain-a", "Chain a", "0xgen", "geth"}, 1), regAct(model.BcnReg, "W1", []string{"beacon-a", "Beacon a"}, 1),
		wrecAct("wrec(W1,#1,next)", "W1", 1, func(l uint64) uint64 { return l + 1 }), brecAct("brec(W1,#1)", "W1", 1))
	add(
		one("create(A->R1,600nund@10)", model.Tx{Msgs: []model.Msg{{Kind: model.StrCreate, From: "A", To: "R1", Den: mc.Nund, Amt: "600", Rate: 10}}}),
		one("create(A->R2,121tok@2)", model.Tx{Msgs: []model.Msg{{Kind: model.StrCreate, From: "A", To: "R2", Den: mc.Tok, Amt: "121", Rate: 2}}}),
		one("claim(R1<-A)", model.Tx{Msgs: []model.Msg{{Kind: model.StrClaim, From: "R1", To: "A"}}}),
		one("claim(R2<-A)", model.Tx{Msgs: []model.Msg{{Kind: model.StrClaim, From: "R2", To: "A"}}}),
		one("cancel(A->R1)", model.Tx{Msgs: []model.Msg{{Kind: model.StrCancel, From: "A", To: "R1"}}}),
		one("send(A->O,5nund)", model.Tx{Msgs: []model.Msg{{Kind: model.BankSend, From: "A", To: "O", Den: mc.Nund, Amt: "5"}}}),
		Action{Name: "grant(A->O,send;P1->O,raise)", Dt: ms, Txs: func(*model.State) []model.Tx {
			return []model.Tx{{Msgs: []model.Msg{{Kind: model.AuthzGrant, From: "A", To: "O", URL: model.BankSend}}}, {Msgs: []model.Msg{{Kind: model.AuthzGrant, From: "P1", To: "O", URL: model.EntRaise}}}}
		}, Enabled: func(m *model.State, _ map[string]int) bool { return !m.Grants["A|O|"+model.BankSend] }},
		one("exec(O,send(A->O,5nund))", model.Tx{Msgs: []model.Msg{{Kind: model.AuthzExec, From: "O", Inner: []model.Msg{{Kind: model.BankSend, From: "A", To: "O", Den: mc.Nund, Amt: "5"}}}}}),
		Action{Name: "exec(O,raise(P1,13))", Dt: ms, Txs: tx1(model.Msg{Kind: model.AuthzExec, From: "O", Inner: []model.Msg{{Kind: model.EntRaise, From: "P1", Den: mc.Nund, Amt: "13"}}}),
			Enabled: func(m *model.State, _ map[string]int) bool { return len(m.Ent.Orders) < maxOrders }},
		entGov("gov(ent:limit=10)", "S1", 1, 10, "gov", 1),
		govOnce("gov(wrk:fees=5/1/1)", model.WrkParams, model.AnchorParams{FeeReg: 5, FeeRec: 1, FeePur: 1, Denom: mc.Nund, Default: 2, Max: 4}),
		govOnce("gov(stream:fee=0.5)", model.StrParams, "0.500000000000000000"),
		failing(entGov("gov(ent:signers=O;min=1)+failing-msg", "O", 1, 100, "gov", 1)),
		vetoed(govOnce("gov(stream:fee=0.5),vetoed", model.StrParams, "0.500000000000000000")),
		Action{Name: "sim(whitelist(S1,+O);raise(P1,5))", Dt: ms, Sim: func(*model.State) []model.Tx {
			return []model.Tx{{Msgs: []model.Msg{{Kind: model.EntWhitelist, From: "S1", To: "O", N: 1}}}, {Msgs: []model.Msg{{Kind: model.EntRaise, From: "P1", Den: mc.Nund, Amt: "5"}}}}
		}},
		Action{Name: "gov(raise(gov,17))", Gov: &GovSpec{Msg: &model.Msg{Kind: model.EntRaise, Den: mc.Nund, Amt: "17"}}, Count: "gov",
			Enabled: func(m *model.State, aux map[string]int) bool { return aux["gov"] < 1 && len(m.Ent.Orders) < maxOrders }},
	)
	add(timeSteps(300, time.Second, 100*time.Second)...)
	if o.govOrder {
		for i := range s.Actions {
			if s.Actions[i].Name == "gov(raise(gov,17))" {
				s.Actions[i].Count = "" // does not use up the scenario's one governance step
				s.Actions[i].Enabled = func(m *model.State, _ map[string]int) bool { return len(m.Ent.Orders) == 0 }
			}
		}
		s.Prefix = []string{"gov(raise(gov,17))"}
	}
	if o.extreme {
		p255, p256m1 := pow2(255), new(big.Int).Sub(pow2(256), big.NewInt(1))
		for _, pa := range []struct {
			p string
			a *big.Int
		}{{"PD", big.NewInt(1)}, {"PL", pow2(63)}, {"P1", p255}, {"P1", p256m1}} {
			pa := pa
			add(Action{Name: fmt.Sprintf("raise(%s,%s)", pa.p, shortBig(pa.a)), Dt: ms, Txs: tx1(model.Msg{Kind: model.EntRaise, From: pa.p, Den: mc.Nund, Amt: pa.a.String()}),
				Enabled: func(m *model.State, _ map[string]int) bool { return len(m.Ent.Orders) < maxOrders }})
		}
		add(decideAndGov("S1", 1, 2, "gov(ent:signers=S1,S2;min=2)", "S1,S2", 2, 100))
		add(Action{Name: "gov(ent:denom=xyz)", Gov: &GovSpec{Kind: model.EntParams, Params: model.EntParamsRaw{Denom: "xyz", Signers: "S1", Min: 1, Limit: 100}}, Count: "gov",
			Enabled: func(_ *model.State, aux map[string]int) bool { return aux["gov"] < 1 }})
	}
	if o.multi {
		okSend := model.Msg{Kind: model.BankSend, From: "A", To: "O", Den: mc.Nund, Amt: "1"}
		badSend := model.Msg{Kind: model.BankSend, From: "A", To: model.ModStr, Den: mc.Nund, Amt: "1"}
		okCreate := model.Msg{Kind: model.StrCreate, From: "A", To: "O", Den: mc.Nund, Amt: "90", Rate: 1}
		badCancel := model.Msg{Kind: model.StrCancel, From: "A", To: "W1"} // no such stream
		okCreate2 := model.Msg{Kind: model.StrCreate, From: "A", To: "W1", Den: mc.Tok, Amt: "61", Rate: 1}
		for j := 0; j < 3; j++ {
			msgs := []model.Msg{okSend, okCreate, okCreate2}
			if j == 1 {
				msgs[j] = badSend
			} else {
				msgs[j] = badCancel
			}
			add(one(fmt.Sprintf("multi3(fail@%d)", j), model.Tx{Msgs: msgs}))
		}
		add(one("multi3(ok)", model.Tx{Msgs: []model.Msg{okSend, okCreate, okCreate2}}))
		// enterprise messages whose effects are rolled back with the transaction: O is whitelisted and raises
		// an order in a transaction whose last message fails; afterwards O must still be unable to raise
		leak := one("multi3(whitelist(S1,+O),raise(O,5),fail)", model.Tx{Msgs: []model.Msg{
			{Kind: model.EntWhitelist, From: "S1", To: "O", N: 1}, {Kind: model.EntRaise, From: "O", Den: mc.Nund, Amt: "5"}, {Kind: model.EntDecide, From: "S1", ID: 99, N: 2}}})
		leak.Count = "rolled_back_whitelisting"
		add(leak, Action{Name: "raise(O,5)", Dt: ms, Txs: tx1(model.Msg{Kind: model.EntRaise, From: "O", Den: mc.Nund, Amt: "5"}),
			Enabled: func(m *model.State, _ map[string]int) bool { return len(m.Ent.Orders) < maxOrders }})
		s.PostProcess = func(e *Exec, discs []Disc) []Disc {
			for i := range discs {
				if e.Aux["rolled_back_whitelisting"] > 0 && discs[i].Kind == "tx.accept_unexpected:ent.raise:not_whitelisted" {
					discs[i].Kind = "tx.nonatomic:later_effect"
					discs[i].Detail = "an address whitelisted only inside a failed transaction can raise an order afterwards: " + discs[i].Detail
				}
			}
			return discs
		}
		// a message that aborts with a panic as the last of three (top-up beyond year 9999, finding F9)
		huge := pow2(100).String()
		add(one("multi3(panic@2)", model.Tx{Msgs: []model.Msg{okSend,
			{Kind: model.StrCreate, From: "O", To: "R1", Den: mc.Tok, Amt: "60", Rate: 1},
			{Kind: model.StrTopUp, From: "O", To: "R1", Den: mc.Tok, Amt: huge}}, Signers: []string{"A", "O"}}))
	}
	return s
}

// vetoed: the proposal is voted down with veto; its deposit is burned (the one protocol burn these
// histories can reach).
func vetoed(a Action) Action {
	g := *a.Gov
	g.Veto = true
	a.Gov = &g
	return a
}

func shortBig(b *big.Int) string {
	if b.BitLen() < 40 {
		return b.String()
	}
	if new(big.Int).Add(b, big.NewInt(1)).Cmp(pow2(uint(b.BitLen()))) == 0 {
		return fmt.Sprintf("2^%d-1", b.BitLen())
	}
	return fmt.Sprintf("2^%d", b.BitLen()-1)
}

// c02Orders: several orders of the same purchasers in flight at once — raised, accepted and completed in
// the same and in consecutive blocks — by purchasers that already hold locked eFUND from an earlier
// order and have partly spent it.
func c02Orders() *Scenario {
	far := GenesisTime.Unix() + 1_000_000_000
	g := BaseGenesis(
		mc.AcctSpec{Name: "S1", Coins: Coins(1000, 0)},
		mc.AcctSpec{Name: "P1", Coins: Coins(1000, 0)}, mc.AcctSpec{Name: "P2", Coins: Coins(1000, 0)},
		mc.AcctSpec{Name: "PV", Kind: mc.Continuous, Coins: Coins(1000, 0), Vesting: Coins(1000, 0), VestEnd: far},
	)
	g.Whitelist = []string{"P1", "P2", "PV"}
	g.Wrk.FeeReg = 10
	s := &Scenario{Name: "supply-orders", Genesis: g, KeyTimeNs: false, Visit: supplyOracle}
	ms := time.Millisecond
	const maxOrders = 5
	room := func(n int) func(m *model.State, _ map[string]int) bool {
		return func(m *model.State, _ map[string]int) bool { return len(m.Ent.Orders)+n <= maxOrders }
	}
	rmsg := func(p string, a int64) model.Msg {
		return model.Msg{Kind: model.EntRaise, From: p, Den: mc.Nund, Amt: amt(a)}
	}
	acc := func(id uint64) model.Msg { return model.Msg{Kind: model.EntDecide, From: "S1", ID: id, N: 2} }
	raised := func(ids ...uint64) func(m *model.State, _ map[string]int) bool {
		return func(m *model.State, _ map[string]int) bool {
			for _, id := range ids {
				o, ok := m.Ent.Orders[id]
				if !ok || o.Status != model.StRaised || len(o.Decisions) > 0 {
					return false
				}
			}
			return true
		}
	}
	two := func(a, b model.Msg) func(*model.State) []model.Tx {
		return func(*model.State) []model.Tx { return []model.Tx{{Msgs: []model.Msg{a}}, {Msgs: []model.Msg{b}}} }
	}
	pre := func(a Action) {
		a.PrefixOnly, a.Enabled = true, nil
		s.Actions = append(s.Actions, a)
		s.Prefix = append(s.Prefix, a.Name)
	}
	pre(Action{Name: "raise(P1,50)", Dt: ms, Txs: tx1(rmsg("P1", 50))})
	pre(Action{Name: "accept(S1,#1)", Dt: ms, Txs: tx1(acc(1))})
	w := Action{Name: "wait(1s)", Dt: time.Second, Enabled: func(m *model.State, _ map[string]int) bool { return elapsed(m) < 30 }}
	s.Actions = append(s.Actions, w)
	s.Prefix = append(s.Prefix, "wait(1s)", "wait(1s)")
	s.Actions = append(s.Actions,
		Action{Name: "raise(P1,11)", Dt: ms, Txs: tx1(rmsg("P1", 11)), Enabled: room(1)},
		Action{Name: "raise(P2,13)", Dt: ms, Txs: tx1(rmsg("P2", 13)), Enabled: room(1)},
		Action{Name: "raise(PV,500)", Dt: ms, Txs: tx1(rmsg("PV", 500)), Enabled: room(1)},
		Action{Name: "raise(P1,11)+raise(P1,17)", Dt: ms, Txs: two(rmsg("P1", 11), rmsg("P1", 17)), Enabled: room(2)},
		Action{Name: "raise(P1,11)+raise(P2,13)", Dt: ms, Txs: two(rmsg("P1", 11), rmsg("P2", 13)), Enabled: room(2)},
		Action{Name: "accept(S1,#2)", Dt: ms, Txs: tx1(acc(2)), Enabled: raised(2)},
		Action{Name: "accept(S1,#3)", Dt: ms, Txs: tx1(acc(3)), Enabled: raised(3)},
		Action{Name: "accept(S1,#2)+accept(S1,#3)", Dt: ms, Txs: two(acc(2), acc(3)), Enabled: raised(2, 3)},
		Action{Name: "accept(S1,#3)+accept(S1,#4)", Dt: ms, Txs: two(acc(3), acc(4)), Enabled: raised(3, 4)},
		// P1 spends part of its locked eFUND on a fee
		Action{Name: "wreg(P1,fee10)", Dt: ms, Txs: func(*model.State) []model.Tx {
			return []model.Tx{{Msgs: []model.Msg{{Kind: model.WrkReg, From: "P1", S: []string{"chain-p", "n", "0xg", "t"}}}, Fee: fee(10)}}
		}, Enabled: func(m *model.State, _ map[string]int) bool { return len(m.Wrk.Ents) < 2 }},
	)
	return s
}

func init() {
	Checks["C02"] = func() *Check {
		sc := unionScenario(unionOpts{name: "union-supply"})
		sc.Visit = supplyOracle
		return &Check{ID: "C02",
			Runs: []Run{{S: sc, Opt: map[Tier]Options{
				Quick:    {Depth: 4, Budget: 150 * time.Second, ReplayEvery: 16},
				Thorough: {Depth: 6, Budget: 12 * time.Minute, ReplayEvery: 32, MaxStates: 500000},
			}}, {S: c02Orders(), Opt: map[Tier]Options{
				Quick:    {Depth: 5, Budget: 100 * time.Second, ReplayEvery: 16},
				Thorough: {Depth: 8, Budget: 8 * time.Minute, ReplayEvery: 32, MaxStates: 500000},
			}}},
			Owns:        ownsAny("supply", "invariant:bank"),
			Assumptions: []string{"IBC vouchers (the only other Minter permission) are out of scope: no IBC channel exists in the explored chains"},
		}
	}
}
