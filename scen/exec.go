package scen

import (
	"crypto/sha256"
	"encoding/binary"
	"encoding/json"
	"fmt"
	"math/big"
	"sort"
	"strings"
	"time"

	abci "github.com/cometbft/cometbft/abci/types"
	sdk "github.com/cosmos/cosmos-sdk/types"
	vestexported "github.com/cosmos/cosmos-sdk/x/auth/vesting/exported"
	govv1 "github.com/cosmos/cosmos-sdk/x/gov/types/v1"

	"verif/mc"
	"verif/model"
)

// GovSpec is a parameter update carried out through a real governance proposal (two blocks).
type GovSpec struct {
	Kind   string // model.EntParams | WrkParams | BcnParams | StrParams
	Params any
	// Msg, if set, is an arbitrary message executed by the proposal with the gov module account
	// as its acting party (e.g. a purchase order raised by governance); Kind/Params are ignored
	Msg *model.Msg
	// Txs, if set, are ordinary transactions delivered in the proposal's first block, before the
	// submission (so that a decision and a parameter change take effect around the same block begin)
	Txs func(m *model.State) []model.Tx
	// FailAfter appends a message that fails when the proposal is executed (a transfer the gov account
	// cannot afford): the proposal passes the vote, its execution is rolled back as a whole
	FailAfter bool
	// Veto: the only voter votes no-with-veto: the proposal is rejected and its deposit is burned
	Veto bool
}

// Action is one letter of a scenario alphabet: one block (time step + transactions), or a
// governance macro-step.
type Action struct {
	Name string
	Dt   time.Duration
	// NextTime, if set, gives the absolute time of the block (for jumps relative to model state,
	// and beyond the range of time.Duration)
	NextTime func(m *model.State) time.Time
	Txs      func(m *model.State) []model.Tx
	Gov      *GovSpec
	Enabled  func(m *model.State, aux map[string]int) bool
	// Count: aux counter incremented when the action is taken (for caps like "at most one governance change")
	Count string
	// Sim: transactions that are only simulated (gas estimation) right after the block of this action; nothing
	// of a simulation may persist, the model ignores them
	Sim func(m *model.State) []model.Tx
	// PrefixOnly letters build the scenario's initial state; the search does not use them
	PrefixOnly bool
	// Upgrade: the in-place software upgrade the binary ships a handler for (two blocks, see upgrade.go)
	Upgrade bool
}

// TxObs is what was observed and predicted for one transaction.
type TxObs struct {
	Tx        model.Tx `json:"tx"`
	Code      uint32   `json:"code"`
	Space     string   `json:"codespace,omitempty"`
	Log       string   `json:"log,omitempty"`
	AnteOK    bool     `json:"ante_ok"`
	Pred      string   `json:"model"` // "ok" | "fail:<reason>" | "ante"
	GasUsed   int64    `json:"gas_used"`
	GasWanted int64    `json:"gas_wanted"`
	Data      string   `json:"data,omitempty"`
	Res       mc.TxRes `json:"-"`
}

type StepObs struct {
	Action   string  `json:"action"`
	Blocks   int     `json:"blocks"`
	Txs      []TxObs `json:"txs,omitempty"`
	AppHash  string  `json:"app_hash"`
	Diverged bool    `json:"diverged,omitempty"` // model and implementation disagree from here on
	Halted   bool    `json:"halted,omitempty"`   // a block could not be produced
}

// Exec couples one world with one model state.
type Exec struct {
	W       *mc.World
	M       *model.State
	Aux     map[string]int
	Tracked []string
	// Hooks for property-specific oracles
	AfterTx func(e *Exec, obs *TxObs, pre, post map[string][]mc.KV) []Disc
	// balances of the tracked accounts before and after the transaction being delivered
	PreBal, PostBal map[string]map[string]*big.Int
	// model state before the transaction
	PreM *model.State
	// midUpgrade: the block being committed leaves the stores in the pre-upgrade layout, which this binary
	// only ever meets at the top of the upgrade block: no observer runs on it
	midUpgrade bool
	// VisitMidUpgrade: the scenario's observer follows state transitions block by block and reads nothing
	// that depends on parameters, so it also runs on that state
	VisitMidUpgrade bool
	// Visit: per-block oracle/observer run after every committed block (it may keep observations in M.Obs)
	Visit func(e *Exec) []Disc
	// events of the block being / last executed (for event-based oracles)
	BeginEvents, EndEvents []abci.Event
	TxEvents               [][]abci.Event
	// PostProcess may re-tag or filter the discrepancies of one action (scenario-specific attribution)
	PostProcess func(e *Exec, discs []Disc) []Disc
	// Degraded: implementation and reference model have disagreed somewhere on the way here, so the model
	// can no longer be the judge; only model-independent oracles (panics, registered invariants, books,
	// escrow backing) are reported from here on
	Degraded bool
	// SkipVisitSteps: number of coming actions after which Visit is not run (scenarios whose long
	// prefix only builds the state of interest)
	SkipVisitSteps int
	// InitDiscs: what Visit reported on the genesis state
	InitDiscs []Disc
	// Annotate may add discrete facts to a discrepancy (for known-finding signatures)
	Annotate func(e *Exec, d *Disc, tx *model.Tx)
}

// ReadBalances reads the balances of all tracked accounts from the current (in-block) state.
func (e *Exec) ReadBalances() map[string]map[string]*big.Int {
	out := map[string]map[string]*big.Int{}
	ctx := e.W.Ctx()
	for _, n := range e.Tracked {
		m := map[string]*big.Int{}
		for _, c := range e.W.App.BankKeeper.GetAllBalances(ctx, AddrOf(e.W, n)) {
			m[c.Denom] = c.Amount.BigInt()
		}
		out[n] = m
	}
	return out
}

// Delta returns post - pre of one account and denom around the last transaction.
func (e *Exec) Delta(acc, denom string) *big.Int {
	a, b := e.PreBal[acc][denom], e.PostBal[acc][denom]
	if a == nil {
		a = new(big.Int)
	}
	if b == nil {
		b = new(big.Int)
	}
	return new(big.Int).Sub(b, a)
}

func (e *Exec) env() model.Env { return implEnv{e.W} }

func (e *Exec) seqOf(name string) uint64 {
	a := e.W.App.AccountKeeper.GetAccount(e.W.Ctx(), AddrOf(e.W, name))
	if a == nil {
		return 0
	}
	return a.GetSequence()
}

func (e *Exec) spendables(at time.Time) map[string]sdk.Coins {
	out := map[string]sdk.Coins{}
	ctx := e.W.Ctx().WithBlockTime(at)
	for _, n := range e.Tracked {
		if strings.HasPrefix(n, "mod:") {
			continue
		}
		out[n] = e.W.App.BankKeeper.SpendableCoins(ctx, AddrOf(e.W, n))
	}
	return out
}

// beginBlock starts a block on both sides; checks the completion rule of C05.
func (e *Exec) beginBlock(dt time.Duration) (discs []Disc, halted bool) {
	return e.beginBlockAt(e.W.Time.Add(dt))
}

func (e *Exec) beginBlockAt(newT time.Time) (discs []Disc, halted bool) {
	before := e.spendables(newT)
	bb, pan := e.W.BeginBlockAt(newT)
	e.BeginEvents, e.EndEvents, e.TxEvents = bb.Events, nil, nil
	completed, _, _ := e.M.BeginBlock(timeNs(newT))
	if pan != "" {
		return []Disc{{Kind: "panic:BeginBlock", Detail: "BeginBlock panicked: " + firstLine(pan), Sig: map[string]string{"phase": "BeginBlock", "panic": firstLine(pan)}}}, true
	}
	if len(completed) > 0 {
		after := e.spendables(newT)
		for _, id := range completed {
			p := e.M.Ent.Orders[id].Purchaser
			b, a := before[p], after[p]
			for _, c := range a {
				if c.Amount.GT(b.AmountOf(c.Denom)) {
					kind := "base"
					if _, ok := e.W.App.AccountKeeper.GetAccount(e.W.Ctx(), AddrOf(e.W, p)).(vestexported.VestingAccount); ok {
						kind = "vesting"
					}
					discs = append(discs, Disc{Kind: "ent.completion_spendable", Detail: fmt.Sprintf("completing order %d raised the spendable %s of purchaser %s from %s to %s", id, c.Denom, p, b.AmountOf(c.Denom), c.Amount),
						Sig: map[string]string{"event": "po_completion", "account_kind": kind}})
				}
			}
		}
	}
	return discs, false
}

func firstLine(s string) string {
	if i := strings.IndexByte(s, '\n'); i >= 0 {
		s = s[:i]
	}
	if len(s) > 300 {
		s = s[:300]
	}
	return s
}

// allowed enterprise-store prefixes that the pre-execution stage may touch (eFUND unlock)
var unlockPrefixes = []string{"02", "06", "98", "99"}

func (e *Exec) deliver(tx model.Tx) (TxObs, []Disc, bool) {
	var discs []Disc
	w, m := e.W, e.M
	obs := TxObs{Tx: tx}
	signers := tx.Signers
	if signers == nil {
		signers = tx.RequiredSigners()
	}
	seqs := func() (out []uint64) {
		for _, n := range signers {
			out = append(out, e.seqOf(n))
		}
		return
	}
	pre := StoresDump(w)
	e.PreBal = e.ReadBalances()
	if e.AfterTx != nil || e.Annotate != nil {
		e.PreM = m.Clone()
	}
	seq0 := seqs()
	bz, err := w.Sign(BuildTx(w, tx))
	if err != nil {
		panic(fmt.Sprintf("harness: cannot sign %+v: %v", tx, err))
	}
	r := w.DeliverTx(bz)
	obs.Res, obs.Code, obs.Space, obs.Log, obs.GasUsed = r, r.Code, r.Codespace, firstLine(r.Log), r.GasUsed
	obs.GasWanted, obs.Data = r.GasWanted, fmt.Sprintf("%x", r.Data)
	post := StoresDump(w)
	e.TxEvents = append(e.TxEvents, r.Events)
	e.PostBal = e.ReadBalances()
	for i, q := range seqs() {
		if q != seq0[i] {
			obs.AnteOK = true
		}
	}
	wrongSigner := strings.Join(signers, ",") != strings.Join(tx.RequiredSigners(), ",")
	diverged := false
	unlocked := new(big.Int)
	var fail *model.Fail
	if obs.AnteOK {
		unlocked = m.FeeEffects(tx)
		fail = m.ExecMsgs(e.env(), tx)
		if fail == nil {
			obs.Pred = "ok"
		} else {
			obs.Pred = "fail:" + fail.Kind + ":" + fail.Reason
		}
	} else {
		obs.Pred = "ante"
	}
	// refused before the pre-execution stage even began (baseapp reports no gas wanted: the transaction did not
	// decode or a message failed its stateless validation) although the keys, the sequence and - on a copy of
	// the model - every message are in order: the stateless validation refuses a legitimate operation
	statelessReject := false
	if !obs.AnteOK && !r.OK() && r.GasWanted == 0 && !wrongSigner && !tx.BadSig && tx.SeqDelta == 0 &&
		(tx.Signed == nil || txJSON(model.Tx{Msgs: tx.Signed}) == txJSON(model.Tx{Msgs: tx.Msgs})) {
		if f := m.Clone().ExecMsgs(e.env(), tx); f == nil {
			statelessReject = true
		}
	}
	switch {
	case statelessReject:
		k := model.Flatten(tx.Msgs)[0].Kind
		discs = append(discs, Disc{Kind: "tx.reject_unexpected:" + k,
			Detail: fmt.Sprintf("transaction refused before the pre-execution stage (stateless validation; %s/%d: %s) but the reference model accepts it; tx %s", r.Codespace, r.Code, firstLine(r.Log), txJSON(tx)),
			Sig:    map[string]string{"kind": k, "stage": "stateless_validation"}})
	case obs.AnteOK && tx.Signed != nil && txJSON(model.Tx{Msgs: tx.Signed}) != txJSON(model.Tx{Msgs: tx.Msgs}):
		// the pre-execution stage (signature verification) let a transaction through whose content is not what was signed
		k := model.Flatten(tx.Msgs)[0].Kind
		discs = append(discs, Disc{Kind: "tx.accept_unexpected:" + k + ":altered_after_signing",
			Detail: fmt.Sprintf("a transaction whose message was altered after it had been signed (amino-JSON sign mode) passed signature verification: signed %s, delivered %s", txJSON(model.Tx{Msgs: tx.Signed}), txJSON(model.Tx{Msgs: tx.Msgs})),
			Sig:    map[string]string{"kind": k, "reason": "altered_after_signing"}})
		diverged = true
	case r.OK() && wrongSigner:
		k := model.Flatten(tx.Msgs)[0].Kind
		discs = append(discs, Disc{Kind: "tx.accept_unexpected:" + k + ":wrong_signer",
			Detail: fmt.Sprintf("transaction signed by %v succeeded although its messages name %v as the acting party; tx %s", signers, tx.RequiredSigners(), txJSON(tx)),
			Sig:    map[string]string{"kind": k, "reason": "wrong_signer"}})
		diverged = true
	case r.OK() && !obs.AnteOK:
		// a transaction that takes effect without its signer's sequence advancing has not been through the
		// pre-execution stage (signature, sequence, fee): it can be replayed, and nothing proves who sent it
		k := model.Flatten(tx.Msgs)[0].Kind
		discs = append(discs, Disc{Kind: "tx.accept_unexpected:" + k + ":pre_execution_checks_skipped",
			Detail: fmt.Sprintf("transaction succeeded although no signer's sequence advanced (signature / sequence / fee checks did not run); tx %s", txJSON(tx)),
			Sig:    map[string]string{"kind": k, "reason": "pre_execution_checks_skipped"}})
		diverged = true
	case r.OK() && fail != nil:
		discs = append(discs, Disc{Kind: "tx.accept_unexpected:" + fail.Kind + ":" + fail.Reason,
			Detail: fmt.Sprintf("transaction succeeded but the reference model rejects message %d (%s): %s; tx %s", fail.Idx, fail.Kind, fail.Reason, txJSON(tx)),
			Sig:    map[string]string{"kind": fail.Kind, "reason": fail.Reason, "nested": fmt.Sprint(isNested(tx))}})
		diverged = true
	case !r.OK() && obs.AnteOK && fail == nil:
		k := model.Flatten(tx.Msgs)[0].Kind
		discs = append(discs, Disc{Kind: "tx.reject_unexpected:" + k,
			Detail: fmt.Sprintf("transaction failed (%s/%d: %s) but the reference model accepts it; tx %s", r.Codespace, r.Code, firstLine(r.Log), txJSON(tx)),
			Sig:    map[string]string{"kind": k, "panic": fmt.Sprint(strings.Contains(r.Log, "panic") || strings.Contains(r.Log, "recovered"))}})
		diverged = true
	}
	// signed by exactly the keys of the parties its messages name, with the right sequences - and refused
	// because "the signature does not match the signer": what the chain takes for the signer of the
	// message is not the party the operation belongs to
	altered := tx.Signed != nil && txJSON(model.Tx{Msgs: tx.Signed}) != txJSON(model.Tx{Msgs: tx.Msgs})
	if !r.OK() && !obs.AnteOK && !wrongSigner && !tx.BadSig && !altered && tx.SeqDelta == 0 && r.Codespace == "sdk" && (r.Code == 4 || r.Code == 8) &&
		(strings.Contains(r.Log, "signature verification failed") || strings.Contains(r.Log, "pubKey does not match signer address")) {
		k := model.Flatten(tx.Msgs)[0].Kind
		discs = append(discs, Disc{Kind: "tx.entitled_signer_refused:" + k,
			Detail: fmt.Sprintf("transaction signed by %v, the parties its messages name, is refused by signature verification (%s); tx %s", signers, firstLine(r.Log), txJSON(tx)),
			Sig:    map[string]string{"kind": k}})
	}
	if strings.Contains(r.Log, "recovered:") && !strings.Contains(r.Log, "out of gas") {
		discs = append(discs, Disc{Kind: "tx.panic", Detail: fmt.Sprintf("transaction aborted with a recovered panic: %s; tx %s", firstLine(r.Log), txJSON(tx)),
			Sig: map[string]string{"kind": model.Flatten(tx.Msgs)[0].Kind}})
	}
	// atomicity: a failed transaction leaves module state as it was, apart from the unlock
	if !r.OK() {
		for _, s := range mc.CustomStores {
			for _, k := range DiffStores(pre[s], post[s]) {
				ok := false
				if s == "enterprise" && obs.AnteOK && unlocked.Sign() > 0 {
					for _, p := range unlockPrefixes {
						if strings.HasPrefix(k, p) {
							ok = true
						}
					}
				}
				if !ok {
					discs = append(discs, Disc{Kind: "tx.nonatomic", Detail: fmt.Sprintf("failed transaction (code %d) changed %s store key %s; tx %s", r.Code, s, k, txJSON(tx)),
						Sig: map[string]string{"store": s}})
				}
			}
		}
	}
	if !diverged {
		bd := append(CompareBalances(w, m, e.Tracked), CompareEntBooks(w, m, e.Tracked)...)
		if len(bd) > 0 {
			diverged = true
		}
		discs = append(discs, bd...)
	}
	if e.AfterTx != nil {
		discs = append(discs, e.AfterTx(e, &obs, pre, post)...)
	}
	if e.Annotate != nil {
		for i := range discs {
			e.Annotate(e, &discs[i], &tx)
		}
	}
	obs.Res = mc.TxRes{} // events and logs are not needed past the per-transaction oracles
	return obs, discs, diverged
}

// modelIndependent: discrepancy kinds that are judged on the implementation's own state and behaviour.
func modelIndependent(kind string) bool {
	for _, p := range []string{"panic:", "tx.panic", "invariant:", "ent.books", "str.escrow", "str.sustain", "harness."} {
		if strings.HasPrefix(kind, p) {
			return true
		}
	}
	return false
}

func isNested(tx model.Tx) bool {
	for _, m := range tx.Msgs {
		if m.Kind == model.AuthzExec {
			return true
		}
	}
	return false
}

func txJSON(tx model.Tx) string {
	bz, _ := json.Marshal(tx)
	return string(bz)
}

// endBlock finishes the block; returns discrepancies for panics.
func (e *Exec) endBlock() (hash []byte, discs []Disc, halted bool) {
	eb, pan := e.W.EndBlock()
	e.EndEvents = eb.Events
	if pan != "" {
		return nil, []Disc{{Kind: "panic:EndBlock", Detail: "EndBlock panicked: " + firstLine(pan), Sig: map[string]string{"phase": "EndBlock", "panic": firstLine(pan)}}}, true
	}
	h, pan := e.W.Commit()
	if pan != "" {
		return nil, []Disc{{Kind: "panic:Commit", Detail: "Commit panicked: " + firstLine(pan), Sig: map[string]string{"phase": "Commit", "panic": firstLine(pan)}}}, true
	}
	// per-block observer (keeps its observations in M.Obs); runs after every committed block
	if e.Visit != nil && e.SkipVisitSteps == 0 && (!e.midUpgrade || e.VisitMidUpgrade) {
		discs = append(discs, e.Visit(e)...)
	}
	return h, discs, false
}

// Run executes one action on the world and on the model and compares them.
func (e *Exec) Run(a *Action, oracle bool) (StepObs, []Disc) {
	obs := StepObs{Action: a.Name}
	var discs []Disc
	defer func() {
		if e.SkipVisitSteps > 0 {
			e.SkipVisitSteps--
		}
	}()
	if a.Count != "" {
		e.Aux[a.Count]++
	}
	block := func(dt time.Duration, txs []model.Tx) bool {
		obs.Blocks++
		at := e.W.Time.Add(dt)
		if a.NextTime != nil {
			at = a.NextTime(e.M)
		}
		d, halted := e.beginBlockAt(at)
		discs = append(discs, d...)
		if halted {
			obs.Halted = true
			return false
		}
		for _, tx := range txs {
			to, d, div := e.deliver(tx)
			obs.Txs = append(obs.Txs, to)
			discs = append(discs, d...)
			if div {
				obs.Diverged = true
			}
		}
		h, d, halted := e.endBlock()
		discs = append(discs, d...)
		if halted {
			obs.Halted = true
			return false
		}
		obs.AppHash = fmt.Sprintf("%X", h)
		return true
	}
	if a.Gov == nil && !a.Upgrade {
		var txs []model.Tx
		if a.Txs != nil {
			txs = a.Txs(e.M)
		}
		ok := block(a.Dt, txs)
		// simulations run against the check state, which the commit above has just rebuilt from the
		// committed state (after a restore-in-place it would otherwise be whatever the instance last had)
		if ok && a.Sim != nil {
			for _, tx := range a.Sim(e.M) {
				bz, err := e.W.Sign(BuildTx(e.W, tx))
				if err != nil {
					panic(fmt.Sprintf("harness: cannot sign %+v: %v", tx, err))
				}
				sok, log := e.W.Simulate(bz)
				obs.Txs = append(obs.Txs, TxObs{Tx: tx, Pred: "simulated", Log: firstLine(log), Code: map[bool]uint32{true: 0, false: 1}[sok]})
			}
		}
	} else if a.Upgrade {
		e.runUpgrade(a, &obs, &discs)
	} else {
		e.runGov(a, &obs, &discs)
	}
	if e.Annotate != nil {
		for i := range discs {
			if strings.HasPrefix(discs[i].Kind, "panic:") {
				e.Annotate(e, &discs[i], nil)
			}
		}
	}
	if oracle && !obs.Halted {
		func() {
			// the observers read through keepers and the query router: a state that cannot be read
			// back is a discrepancy of the implementation, not a failure of the harness
			defer func() {
				if p := recover(); p != nil {
					discs = append(discs, Disc{Kind: "panic:state_read", Detail: fmt.Sprintf("reading the committed state back (keepers / query router) panics: %v", p), Sig: map[string]string{"phase": "state_read"}})
				}
			}()
			discs = append(discs, SelfConsistency(e.W)...)
			if !obs.Diverged {
				discs = append(discs, Compare(e.W, e.M, e.Tracked)...)
			}
		}()
	}
	if e.PostProcess != nil {
		discs = e.PostProcess(e, discs)
	}
	if e.Degraded {
		kept := discs[:0]
		for _, d := range discs {
			if modelIndependent(d.Kind) {
				kept = append(kept, d)
			}
		}
		discs = kept
	}
	return obs, discs
}

// runGov: block 1 = submit proposal (deposit) + vote yes by V; block 2 (+3 s) = tally and execute.
func (e *Exec) runGov(a *Action, obs *StepObs, discs *[]Disc) {
	w, m := e.W, e.M
	g := a.Gov
	valid := true
	kind := g.Kind
	if g.Msg != nil {
		kind = ""
	}
	switch kind {
	case model.EntParams:
		valid = model.ValidEnt(g.Params.(model.EntParamsRaw))
	case model.WrkParams, model.BcnParams:
		valid = model.ValidAnchor(g.Params.(model.AnchorParams))
	case model.StrParams:
		valid = model.ValidFeeRate(g.Params.(string))
	}
	dt := a.Dt
	if dt == 0 {
		dt = time.Second
	}
	obs.Blocks++
	d, halted := e.beginBlock(dt)
	*discs = append(*discs, d...)
	if halted {
		obs.Halted = true
		return
	}
	if g.Txs != nil {
		for _, tx := range g.Txs(m) {
			to, d, div := e.deliver(tx)
			obs.Txs = append(obs.Txs, to)
			*discs = append(*discs, d...)
			if div {
				obs.Diverged = true
			}
		}
	}
	im := model.Msg{Kind: g.Kind, From: model.ModGov, Params: g.Params}
	if g.Msg != nil {
		im = *g.Msg
		im.From = model.ModGov
	}
	inner := BuildMsg(w, im)
	dep := sdk.NewCoins(sdk.NewInt64Coin(mc.Nund, 10))
	pmsgs := []sdk.Msg{inner}
	if g.FailAfter {
		pmsgs = append(pmsgs, BuildMsg(w, model.Msg{Kind: model.BankSend, From: model.ModGov, To: "V", Den: mc.Nund, Amt: "1000000000000000000000000"}))
	}
	sub, err := govv1.NewMsgSubmitProposal(pmsgs, dep, w.Bech("V"), "", "verif param change", "verif param change")
	must(err)
	pid, err := w.App.GovKeeper.GetProposalID(w.Ctx())
	must(err)
	r1 := w.DeliverTx(w.MustSign(mc.TxSpec{Msgs: []sdk.Msg{sub}, Signers: []string{"V"}}))
	e.TxEvents = append(e.TxEvents, r1.Events)
	opt := govv1.OptionYes
	if g.Veto {
		opt = govv1.OptionNoWithVeto
	}
	vote := govv1.NewMsgVote(w.Addr("V"), pid, opt, "")
	r2 := w.DeliverTx(w.MustSign(mc.TxSpec{Msgs: []sdk.Msg{vote}, Signers: []string{"V"}}))
	obs.Txs = append(obs.Txs, TxObs{Code: r1.Code, Log: firstLine(r1.Log), Pred: fmt.Sprintf("gov-submit valid=%v", valid)}, TxObs{Code: r2.Code, Log: firstLine(r2.Log), Pred: "gov-vote"})
	if r1.OK() != valid {
		*discs = append(*discs, Disc{Kind: "params.validity:" + g.Kind, Detail: fmt.Sprintf("proposal carrying %s %+v: submission code %d (%s) but the validity predicate says valid=%v", g.Kind, g.Params, r1.Code, firstLine(r1.Log), valid),
			Sig: map[string]string{"kind": g.Kind, "model_valid": fmt.Sprint(valid)}})
	}
	if r1.OK() {
		m.Bal["V"][mc.Nund] = new(big.Int).Sub(m.BalOf("V", mc.Nund), big.NewInt(10))
		if m.Bal[model.ModGov] == nil {
			m.Bal[model.ModGov] = map[string]*big.Int{}
		}
		m.Bal[model.ModGov][mc.Nund] = new(big.Int).Add(m.BalOf(model.ModGov, mc.Nund), big.NewInt(10))
	}
	_, d, halted = e.endBlock()
	*discs = append(*discs, d...)
	if halted {
		obs.Halted = true
		return
	}
	obs.Blocks++
	d, halted = e.beginBlock(3 * time.Second)
	*discs = append(*discs, d...)
	if halted {
		obs.Halted = true
		return
	}
	// the proposal is tallied and executed in this block's EndBlock: bring the model up to date
	// first, so that per-block observers see both sides in the same state
	if r1.OK() && g.Veto {
		// vetoed: the deposit is burned (a protocol burn: the supply shrinks by it), nothing is executed
		m.Bal[model.ModGov][mc.Nund] = new(big.Int).Sub(m.BalOf(model.ModGov, mc.Nund), big.NewInt(10))
		if m.Bal[model.ModGov][mc.Nund].Sign() == 0 {
			delete(m.Bal[model.ModGov], mc.Nund)
		}
		m.Supply[mc.Nund] = new(big.Int).Sub(m.SupplyOf(mc.Nund), big.NewInt(10))
	} else if r1.OK() {
		// deposit refunded, proposal executed
		m.Bal["V"][mc.Nund] = new(big.Int).Add(m.BalOf("V", mc.Nund), big.NewInt(10))
		m.Bal[model.ModGov][mc.Nund] = new(big.Int).Sub(m.BalOf(model.ModGov, mc.Nund), big.NewInt(10))
		if m.Bal[model.ModGov][mc.Nund].Sign() == 0 {
			delete(m.Bal[model.ModGov], mc.Nund)
		}
		if g.FailAfter {
			// the trailing message fails: nothing of the proposal takes effect
		} else if g.Msg != nil {
			m.ExecMsgs(e.env(), model.Tx{Msgs: []model.Msg{im}}) // a failing message fails the proposal and changes nothing
		} else if valid {
			if why := m.SetParams(g.Kind, g.Params); why != "" {
				panic("harness: model rejected params it called valid")
			}
		}
	}
	h, d, halted := e.endBlock()
	*discs = append(*discs, d...)
	if halted {
		obs.Halted = true
		return
	}
	obs.AppHash = fmt.Sprintf("%X", h)
}

// Key computes the canonical state key (DESIGN 3.4).
func (e *Exec) Key(timeNs bool) [32]byte {
	h := sha256.New()
	w := e.W
	ctx := w.Ctx()
	wr := func(b []byte) {
		var l [4]byte
		binary.BigEndian.PutUint32(l[:], uint32(len(b)))
		h.Write(l[:])
		h.Write(b)
	}
	for _, s := range append(append([]string{}, mc.CustomStores...), "authz", "feegrant") {
		wr([]byte(s))
		for _, kv := range w.StoreDump(ctx, s) {
			wr(kv.K)
			wr(kv.V)
		}
	}
	names := append([]string{}, e.Tracked...)
	sort.Strings(names)
	for _, n := range names {
		wr([]byte(n))
		wr([]byte(w.App.BankKeeper.GetAllBalances(ctx, AddrOf(w, n)).String()))
		if va, ok := w.App.AccountKeeper.GetAccount(ctx, AddrOf(w, n)).(vestexported.VestingAccount); ok {
			wr([]byte(va.GetDelegatedFree().String() + "/" + va.GetDelegatedVesting().String()))
		}
	}
	wr([]byte(w.App.BankKeeper.GetSupply(ctx, mc.Nund).String() + w.App.BankKeeper.GetSupply(ctx, mc.Tok).String()))
	var tb [8]byte
	if timeNs {
		binary.BigEndian.PutUint64(tb[:], uint64(w.Time.UnixNano()))
	} else {
		binary.BigEndian.PutUint64(tb[:], uint64(w.Time.Unix()))
	}
	wr(tb[:])
	c := *e.M
	c.Now = nil
	wr(c.Canon())
	ab, _ := json.Marshal(e.Aux)
	wr(ab)
	var out [32]byte
	copy(out[:], h.Sum(nil))
	return out
}
