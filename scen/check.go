package scen

import (
	"crypto/sha256"
	"encoding/json"
	"fmt"
	"os"
	"path/filepath"
	"sort"
	"strconv"
	"strings"
	"sync"
	"time"
)

// Tier selects the bounds.
type Tier string

const (
	Quick    Tier = "quick"
	Thorough Tier = "thorough"
)

// CurrentTier is the tier of the check being executed (visitors may scale their own effort with it).
var CurrentTier = Quick

// Run is one scenario exploration inside a check.
type Run struct {
	S   *Scenario
	Opt map[Tier]Options
}

// Check decides one property.
type Check struct {
	ID   string
	Runs []Run
	// Owns reports whether a discrepancy kind is a violation of this property.
	Owns func(kind string) bool
	// Extra runs non-BFS parts (fan-outs, enumerations); returns coverage fragments and violations.
	Extra       func(t Tier, ev *Evidence) []Violation
	Assumptions []string
	Level       string
}

type Evidence struct {
	PropertyID  string         `json:"property_id"`
	Tier        string         `json:"tier"`
	Seed        int            `json:"seed"`
	Level       string         `json:"level"`
	Coverage    map[string]any `json:"coverage"`
	Assumptions []string       `json:"assumptions"`
	WallS       float64        `json:"wall_s"`
	Violations  int            `json:"violations"`
}

type KnownFinding struct {
	Property  string            `json:"property"`
	ID        string            `json:"id"`
	Kind      string            `json:"kind_prefix"`
	Sig       map[string]string `json:"sig,omitempty"`
	Contains  string            `json:"detail_contains,omitempty"`
	WhatFails string            `json:"what_fails"`
	Status    string            `json:"status,omitempty"` // "recorded" | "fixed: ..." (fixed entries suppress nothing)
}

func VerifDir() string {
	if d := os.Getenv("VERIF_DIR"); d != "" {
		return d
	}
	return "/verif"
}

func LoadKnown() []KnownFinding {
	bz, err := os.ReadFile(filepath.Join(VerifDir(), "known_findings.json"))
	if err != nil {
		return nil
	}
	var f struct {
		Findings []KnownFinding `json:"findings"`
	}
	if err := json.Unmarshal(bz, &f); err != nil {
		fmt.Fprintf(os.Stderr, "HARNESS-ERROR known_findings.json: %v\n", err)
		os.Exit(2)
	}
	return f.Findings
}

func (k KnownFinding) Matches(prop string, d Disc) bool {
	if k.Property != prop || strings.HasPrefix(k.Status, "fixed") {
		return false
	}
	if !strings.HasPrefix(d.Kind, k.Kind) {
		return false
	}
	for key, v := range k.Sig {
		if d.Sig[key] != v {
			return false
		}
	}
	if k.Contains != "" && !strings.Contains(d.Detail, k.Contains) {
		return false
	}
	return true
}

func seed() int {
	n, _ := strconv.Atoi(os.Getenv("VERIF_SEED"))
	return n
}

// Execute runs the check, writes evidence and replay artefacts, prints the verdict lines and
// returns the process exit code.
func (c *Check) Execute(t Tier) int {
	t0 := time.Now()
	CurrentTier = t
	known := LoadKnown()
	ev := &Evidence{PropertyID: c.ID, Tier: string(t), Seed: seed(), Level: c.Level, Coverage: map[string]any{}, Assumptions: c.Assumptions}
	if ev.Level == "" {
		ev.Level = "model_checking"
	}
	if ev.Assumptions == nil {
		ev.Assumptions = []string{}
	}
	ev.Assumptions = append(ev.Assumptions, "bounded: every history over the listed alphabet up to the reported depth and caps; nothing beyond", "trusted: Go toolchain, Cosmos-SDK 0.47.13 / IAVL / cometbft-db substrate, secp256k1 signing, the reference models under /verif/model")
	var all []Violation
	var scen []Stats
	states, trans, replayed, evals := 0, 0, 0, 0
	unconfirmed, mismatches := 0, 0
	hiddenState := false
	exhaustive := true
	var samples []any
	outcomes := map[string]int{}
	for _, r := range c.Runs {
		opt := r.Opt[t]
		opt.Owns, opt.Property = c.Owns, c.ID
		st, vs := r.S.Explore(opt)
		scen = append(scen, st)
		states += st.States
		trans += st.Transitions
		replayed += st.Replayed
		evals += st.OracleEvals
		exhaustive = exhaustive && st.Exhaustive
		mismatches += st.ConformanceMismatches
		for _, p := range st.Samples {
			samples = append(samples, map[string]any{"scenario": st.Scenario, "path": p})
		}
		for k, v := range st.Outcomes {
			outcomes[k] += v
		}
		confirm := func(vs []Violation) (kept []Violation, dropped int) {
			// believe a violation only if it reproduces on two fresh replays (fresh application, whole
			// path from genesis, no restore): that is what a real node executing this history does. A
			// discrepancy seen only on a re-used, restored instance is an artefact of state the
			// application keeps outside its database (C01's subject), not a violation of this property.
			// Candidates arrive in BFS order (shortest first), grouped here by kind and signature; each
			// group is confirmed in parallel batches until two counterexamples reproduce.
			groups := map[string][]Violation{}
			var order []string
			for _, v := range vs {
				k := v.Disc.Kind + fmt.Sprint(v.Disc.Sig)
				if _, ok := groups[k]; !ok {
					order = append(order, k)
				}
				groups[k] = append(groups[k], v)
			}
			for _, k := range order {
				g := groups[k]
				got := 0
				for i := 0; i < len(g) && got < 2; i += 16 {
					j := i + 16
					if j > len(g) {
						j = len(g)
					}
					ok := make([]bool, j-i)
					var wg sync.WaitGroup
					for x := i; x < j; x++ {
						wg.Add(1)
						go func(x int) { defer wg.Done(); ok[x-i] = r.S.Confirm(g[x]) }(x)
					}
					wg.Wait()
					for x := i; x < j; x++ {
						if !ok[x-i] {
							if unconfirmed+dropped < 5 {
								fmt.Fprintf(os.Stderr, "UNCONFIRMED: %s path %v does not reproduce on a fresh application: %s: %s\n", r.S.Name, g[x].Path, g[x].Disc.Kind, g[x].Disc.Detail)
							}
							dropped++
							continue
						}
						if got < 2 {
							got++
							kept = append(kept, g[x])
						}
					}
				}
			}
			return
		}
		kept, dropped := confirm(vs)
		if (dropped > 0 || st.ConformanceMismatches > 0) && !opt.FreshJobs && !opt.NoOracle {
			// The re-used, restored application instances of the search do not behave like fresh ones:
			// the application keeps state outside its database. What was explored cannot be trusted, so
			// the scenario is explored again without any instance re-use: every transition on a fresh
			// application that replays the whole path from genesis (what a real node does). Slower by an
			// order of magnitude; the same depth bound applies, the budget decides how far it gets.
			fmt.Fprintf(os.Stderr, "[%s] scenario %s: %d discrepancies did not reproduce on fresh applications, %d explored states differ from their fresh replay: exploring again with a fresh application per transition\n", c.ID, st.Scenario, dropped, st.ConformanceMismatches)
			opt2 := opt
			opt2.FreshJobs, opt2.ReplayEvery = true, 1<<30
			if opt2.Budget < 100*time.Second {
				opt2.Budget = 100 * time.Second
			}
			st2, vs2 := r.S.Explore(opt2)
			st2.Scenario += " (fresh application per transition)"
			scen = append(scen, st2)
			states += st2.States
			trans += st2.Transitions
			evals += st2.OracleEvals
			hiddenState = true
			kept2, dropped2 := confirm(vs2)
			kept = append(kept, kept2...)
			// what the first pass saw and a fresh node does not is an artefact; what the second pass
			// reports was produced by fresh nodes only
			mismatches += st2.ConformanceMismatches - st.ConformanceMismatches
			dropped = dropped2
			st = st2
		}
		all = append(all, kept...)
		unconfirmed += dropped
		fmt.Fprintf(os.Stderr, "[%s] scenario %s: states=%d transitions=%d depth=%d closed=%v exhaustive=%v replayed=%d dead=%d foreign=%v wall=%.1fs %s\n",
			c.ID, st.Scenario, st.States, st.Transitions, st.DepthCompleted, st.Closed, st.Exhaustive, st.Replayed, st.DeadStates, st.Foreign, st.WallS, st.StoppedBy)
	}
	if c.Extra != nil {
		all = append(all, c.Extra(t, ev)...)
	}
	if len(c.Runs) > 0 {
		ev.Coverage["states"] = states
		ev.Coverage["transitions"] = trans
		ev.Coverage["traces_validated_against_impl"] = replayed
		ev.Coverage["oracle_evaluations"] = evals
		ev.Coverage["scenarios"] = scen
		ev.Coverage["outcomes"] = outcomes
		ev.Coverage["exhaustive"] = exhaustive
		ev.Coverage["rule"] = "explicit-state BFS over the scenario alphabets on the real application (one real block per transition), de-duplicated by canonical state key; every new state is re-derived by replaying its path on a fresh application; a state is non-trivial if its key differs from every earlier state"
		ev.Coverage["distinct_nontrivial"] = states
		ev.Coverage["evaluations"] = trans
	}
	if s, ok := ev.Coverage["samples"].([]any); ok {
		samples = append(samples, s...)
	}
	if len(samples) == 0 {
		samples = append(samples, "none")
	}
	ev.Coverage["samples"] = samples

	// classify: known finding vs violation
	code := 0
	seenKnown := map[string]bool{}
	kfIDs := map[string]bool{}
	nviol := 0
	os.MkdirAll(filepath.Join(VerifDir(), "replays"), 0o755)
	for _, v := range all {
		matched := ""
		for _, k := range known {
			if k.Matches(c.ID, v.Disc) {
				matched = k.ID
				if !seenKnown[k.ID+k.WhatFails] {
					seenKnown[k.ID+k.WhatFails] = true
					kfIDs[k.ID] = true
					fmt.Printf("KNOWN-FINDING: property=%s %s: %s\n", c.ID, k.ID, k.WhatFails)
				}
				break
			}
		}
		if matched != "" {
			continue
		}
		nviol++
		bz, _ := json.MarshalIndent(v, "", " ")
		sum := sha256.Sum256(bz)
		p := filepath.Join(VerifDir(), "replays", fmt.Sprintf("%s-%x.json", c.ID, sum[:4]))
		os.WriteFile(p, bz, 0o644)
		fmt.Printf("VIOLATION property=%s replay=%s\n", c.ID, p)
		fmt.Printf("  scenario=%s path=%v\n  %s: %s\n", v.Scenario, v.Path, v.Disc.Kind, v.Disc.Detail)
		code = 1
	}
	var kf []string
	for k := range kfIDs {
		kf = append(kf, k)
	}
	sort.Strings(kf)
	ev.Coverage["known_findings_hit"] = kf
	ev.Coverage["unconfirmed_discrepancies"] = unconfirmed
	ev.Coverage["conformance_mismatches"] = mismatches
	ev.Coverage["explored_again_with_fresh_application_per_transition"] = hiddenState
	if (unconfirmed > 0 || mismatches > 0) && nviol == 0 {
		// nothing reproducible was found, but the exploration saw behaviour that a fresh application does
		// not show: the explored instances carried state outside the database, so what was covered
		// cannot be trusted. Not a verdict on this property.
		fmt.Fprintf(os.Stderr, "HARNESS-NONDETERMINISM: %d discrepancies seen during the exploration do not reproduce on fresh applications, %d explored states differ from their fresh replay, and no violation reproduces; the application keeps state outside its database (see C01) or the harness is broken\n", unconfirmed, mismatches)
		ev.WallS = time.Since(t0).Seconds()
		WriteEvidence(ev)
		return 2
	}
	ev.Violations = nviol
	ev.WallS = time.Since(t0).Seconds()
	WriteEvidence(ev)
	if code == 0 {
		fmt.Printf("OK property=%s tier=%s states=%v transitions=%v evaluations=%v wall=%.1fs\n", c.ID, t, ev.Coverage["states"], ev.Coverage["transitions"], ev.Coverage["evaluations"], ev.WallS)
	}
	return code
}

func WriteEvidence(ev *Evidence) {
	os.MkdirAll(filepath.Join(VerifDir(), "evidence"), 0o755)
	bz, err := json.MarshalIndent(ev, "", " ")
	if err != nil {
		fmt.Fprintf(os.Stderr, "HARNESS-ERROR evidence: %v\n", err)
		os.Exit(2)
	}
	if err := os.WriteFile(filepath.Join(VerifDir(), "evidence", ev.PropertyID+".json"), bz, 0o644); err != nil {
		fmt.Fprintf(os.Stderr, "HARNESS-ERROR evidence: %v\n", err)
		os.Exit(2)
	}
}

// Registry of checks.
var Checks = map[string]func() *Check{}

// ReplayFile replays a violation artefact without the explorer.
func ReplayFile(path string) int {
	bz, err := os.ReadFile(path)
	if err != nil {
		fmt.Fprintln(os.Stderr, err)
		return 2
	}
	var v Violation
	if err := json.Unmarshal(bz, &v); err != nil {
		fmt.Fprintln(os.Stderr, err)
		return 2
	}
	mk, ok := Checks[v.Property]
	if !ok {
		fmt.Fprintf(os.Stderr, "unknown property %s\n", v.Property)
		return 2
	}
	c := mk()
	for _, r := range c.Runs {
		if r.S.Name != v.Scenario {
			continue
		}
		obs, ds := r.S.ReplayNames(v.Path)
		for i, o := range obs {
			fmt.Printf("step %d %s blocks=%d hash=%s\n", i, o.Action, o.Blocks, o.AppHash)
			for _, t := range o.Txs {
				fmt.Printf("   tx code=%d ante=%v model=%s log=%s\n", t.Code, t.AnteOK, t.Pred, t.Log)
			}
			for _, d := range ds[i] {
				fmt.Printf("   DISC %s: %s\n", d.Kind, d.Detail)
			}
		}
		if len(ds) == len(v.Path) {
			for _, d := range ds[len(ds)-1] {
				if d.Kind == v.Disc.Kind {
					fmt.Printf("VIOLATION property=%s replay=%s\n", v.Property, path)
					return 1
				}
			}
		}
		fmt.Println("NOT-REPRODUCED")
		return 0
	}
	if c.Extra != nil {
		fmt.Fprintf(os.Stderr, "scenario %s is not a BFS scenario of %s; rerun the check to reproduce\n", v.Scenario, v.Property)
	}
	return 2
}
