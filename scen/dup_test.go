package scen

import "testing"

func TestNoDuplicateActionNames(t *testing.T) {
	for id, mk := range Checks {
		for _, r := range mk().Runs {
			seen := map[string]bool{}
			for _, a := range r.S.Actions {
				if seen[a.Name] {
					t.Errorf("%s/%s: duplicate action name %q", id, r.S.Name, a.Name)
				}
				seen[a.Name] = true
			}
		}
	}
}
