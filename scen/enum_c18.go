package scen

import (
	"bytes"
	"encoding/binary"
	"fmt"
	beaconmod "github.com/unification-com/mainchain/x/beacon"
	wrkchainmod "github.com/unification-com/mainchain/x/wrkchain"
	"sort"

	sdk "github.com/cosmos/cosmos-sdk/types"
	"github.com/cosmos/cosmos-sdk/types/query"

	beacontypes "github.com/unification-com/mainchain/x/beacon/types"
	enttypes "github.com/unification-com/mainchain/x/enterprise/types"
	streamtypes "github.com/unification-com/mainchain/x/stream/types"
	wrkchaintypes "github.com/unification-com/mainchain/x/wrkchain/types"

	"verif/mc"
)

// ---- C18: store keys never alias; listing order; stream key parsing -----------------------------

type logicalKey struct {
	module  string // store
	section string
	args    string // canonical rendering of the logical arguments
	build   func() []byte
	// group: keys of the same group are iterated together in ascending order; ord is the numeric order inside the group
	group string
	ord   []uint64
	// entityPrefix: prefix under which the entity's own sub-keys are iterated (nil if none)
	entityPrefix func() []byte
	entity       string
}

var c18IDs = []uint64{0, 1, 2, 255, 256, 1 << 32, 1 << 63, ^uint64(0)}

func c18Addrs() [][]byte {
	var out [][]byte
	fill := func(n int, b byte) []byte { return bytes.Repeat([]byte{b}, n) }
	// boundary lengths, the common 20 and 32, and every length whose length byte equals a store prefix byte in
	// use in the four modules (0x01..0x07, 0x11, 0x20, 0x98, 0x99) with its neighbours: a parser or
	// iterator that confuses a prefix byte with a length byte shows at exactly those lengths
	for _, n := range []int{1, 2, 3, 4, 5, 6, 7, 8, 16, 17, 18, 19, 20, 21, 32, 152, 153, 254, 255} {
		out = append(out, fill(n, 0x00), fill(n, 0xff))
		a := make([]byte, n)
		for i := range a {
			a[i] = byte(0x41 + i%23)
		}
		out = append(out, a)
		if n < 255 {
			out = append(out, append(append([]byte{}, a...), 0x00)) // A || 0x00: prefix-related to A
		}
		// bytes that look like a length prefix of the next size
		l := fill(n, byte(n))
		out = append(out, l)
	}
	// an address whose tail is the length-prefixed form of another address (what a suffix match on raw keys
	// would confuse): 11 bytes | 0x14 | the 20-byte pattern address, and 0x02 | a 2-byte address
	{
		a20 := make([]byte, 20)
		for i := range a20 {
			a20[i] = byte(0x41 + i%23)
		}
		out = append(out, append(append(bytes.Repeat([]byte{0x07}, 11), 0x14), a20...))
		out = append(out, []byte{0x09, 0x02, 0x41, 0x42})
	}
	// de-duplicate
	seen := map[string]bool{}
	var u [][]byte
	for _, a := range out {
		if len(a) > 255 || seen[string(a)] {
			continue
		}
		seen[string(a)] = true
		u = append(u, a)
	}
	return u
}

func c18Keys() []logicalKey {
	var ks []logicalKey
	addID := func(mod, sec string, f func(uint64) []byte) {
		for _, id := range c18IDs {
			id := id
			ks = append(ks, logicalKey{module: mod, section: sec, args: fmt.Sprint(id), build: func() []byte { return f(id) }, group: mod + "/" + sec, ord: []uint64{id}})
		}
	}
	addID("enterprise", "order", enttypes.PurchaseOrderKey)
	addID("enterprise", "raisedq", enttypes.RaisedQueueStoreKey)
	addID("enterprise", "acceptedq", enttypes.AcceptedQueueStoreKey)
	addID("wrkchain", "chain", wrkchaintypes.WrkChainKey)
	addID("wrkchain", "limit", wrkchaintypes.WrkChainStorageLimitKey)
	addID("beacon", "beacon", beacontypes.BeaconKey)
	addID("beacon", "limit", beacontypes.BeaconStorageLimitKey)
	for _, id := range c18IDs {
		for _, h := range c18IDs {
			id, h := id, h
			ks = append(ks,
				logicalKey{module: "wrkchain", section: "block", args: fmt.Sprintf("%d/%d", id, h), build: func() []byte { return wrkchaintypes.WrkChainBlockKey(id, h) },
					group: fmt.Sprintf("wrkchain/block/%d", id), ord: []uint64{h}, entity: fmt.Sprint(id), entityPrefix: func() []byte { return wrkchaintypes.WrkChainAllBlocksKey(id) }},
				logicalKey{module: "beacon", section: "timestamp", args: fmt.Sprintf("%d/%d", id, h), build: func() []byte { return beacontypes.BeaconTimestampKey(id, h) },
					group: fmt.Sprintf("beacon/timestamp/%d", id), ord: []uint64{h}, entity: fmt.Sprint(id), entityPrefix: func() []byte { return beacontypes.BeaconAllTimestampsKey(id) }},
			)
		}
	}
	addrs := c18Addrs()
	for _, a := range addrs {
		a := a
		ks = append(ks,
			logicalKey{module: "enterprise", section: "locked", args: fmt.Sprintf("%x", a), build: func() []byte { return enttypes.LockedUndAddressStoreKey(a) }},
			logicalKey{module: "enterprise", section: "spent", args: fmt.Sprintf("%x", a), build: func() []byte { return enttypes.SpentEFUNDAddressStoreKey(a) }},
			logicalKey{module: "enterprise", section: "whitelist", args: fmt.Sprintf("%x", a), build: func() []byte { return enttypes.WhitelistAddressStoreKey(a) }},
		)
	}
	// streams: all (receiver, sender) pairs over a reduced address set (every length, two contents)
	var sa [][]byte
	for i, a := range addrs {
		if i%2 == 0 || len(a) <= 2 || len(a) == 32 || len(a) == 4 || len(a) == 20 {
			sa = append(sa, a)
		}
	}
	for _, r := range sa {
		for _, s := range sa {
			r, s := r, s
			ks = append(ks, logicalKey{module: "stream", section: "stream", args: fmt.Sprintf("%x<-%x", r, s), build: func() []byte { return streamtypes.GetStreamKey(r, s) },
				entity: fmt.Sprintf("%x", r), entityPrefix: func() []byte { return streamtypes.GetStreamsByReceiverKey(r) }})
		}
	}
	return ks
}

func c18Extra(t Tier, ev *Evidence) []Violation {
	var viols []Violation
	hist := map[string]int{}
	bad := func(kind, f string, a ...any) {
		hist["violation/"+kind]++
		if len(viols) < 8 {
			viols = append(viols, Violation{Property: "C18", Scenario: "key-grid", Path: []string{kind}, Disc: Disc{Kind: "keys." + kind, Detail: fmt.Sprintf(f, a...)}})
		}
	}
	ks := c18Keys()
	evals := 0
	byMod := map[string][]int{}
	for i, k := range ks {
		byMod[k.module] = append(byMod[k.module], i)
	}
	// all pairs within a module: both keys are built first and compared afterwards
	for mod, idx := range byMod {
		for x := 0; x < len(idx); x++ {
			for y := x + 1; y < len(idx); y++ {
				a, b := ks[idx[x]], ks[idx[y]]
				ka := a.build()
				kb := b.build()
				ka2 := a.build() // rebuilt after b: must still be the same bytes (no shared backing array)
				evals++
				if !bytes.Equal(ka, ka2) {
					bad("alias", "%s: building the key of %s(%s) changed the key of %s(%s) built before", mod, b.section, b.args, a.section, a.args)
				}
				if bytes.Equal(ka, kb) {
					bad("collision", "%s: %s(%s) and %s(%s) map to the same store key %x", mod, a.section, a.args, b.section, b.args, ka)
				}
				// an entity's iteration prefix must not capture another entity's keys
				for _, pq := range [][2]logicalKey{{a, b}, {b, a}} {
					p, q := pq[0], pq[1]
					if p.entityPrefix != nil && !(p.section == q.section && p.entity == q.entity) {
						if bytes.HasPrefix(q.build(), p.entityPrefix()) {
							bad("prefix", "%s: iterating %s of entity %s also returns %s(%s)", mod, p.section, p.entity, q.section, q.args)
						}
					}
				}
				// numeric order inside a group
				if a.group != "" && a.group == b.group {
					want := 0
					for i := range a.ord {
						if a.ord[i] != b.ord[i] {
							if a.ord[i] < b.ord[i] {
								want = -1
							} else {
								want = 1
							}
							break
						}
					}
					if got := bytes.Compare(ka, kb); got != want {
						bad("order", "%s: keys of %s(%s) and %s(%s) sort %d, numeric order is %d", mod, a.section, a.args, b.section, b.args, got, want)
					}
				}
			}
		}
	}
	hist["pairs"] = evals
	// stream key parsers invert the builder for every length pair
	parse := 0
	for _, k := range ks {
		if k.module != "stream" {
			continue
		}
		key := k.build()
		var r, s sdk.AccAddress
		func() {
			defer func() {
				if p := recover(); p != nil {
					bad("parse", "AddressesFromStreamKey panicked on the key of stream %s: %v", k.args, p)
				}
			}()
			r, s = streamtypes.AddressesFromStreamKey(key)
		}()
		parse++
		if got := fmt.Sprintf("%x<-%x", []byte(r), []byte(s)); got != k.args {
			bad("parse", "AddressesFromStreamKey(key of %s) = %s", k.args, got)
		}
		// the per-receiver listing parses the sender from the key with the receiver prefix removed
		func() {
			defer func() {
				if p := recover(); p != nil {
					bad("parse", "FirstAddressFromStreamStoreKey panicked for stream %s: %v", k.args, p)
				}
			}()
			pre := k.entityPrefix()
			rest := key[len(pre):]
			want := k.args[len(k.entity)+2:]
			if s2 := streamtypes.FirstAddressFromStreamStoreKey(rest); fmt.Sprintf("%x", []byte(s2)) != want {
				bad("parse", "FirstAddressFromStreamStoreKey(%x) = %x for stream %s", rest, []byte(s2), k.args)
			}
		}()
	}
	hist["stream_key_parses"] = parse
	// keeper round trips on a scratch context of the real application
	rt := 0
	func() {
		defer func() {
			if p := recover(); p != nil {
				bad("roundtrip", "keeper round trips abort with a panic: %v", firstLine(fmt.Sprint(p)))
			}
		}()
		rt = c18RoundTrips(bad)
	}()
	hist["keeper_round_trips"] = rt
	ev.Level = "exploration"
	ev.Coverage["evaluations"] = evals + parse + rt
	ev.Coverage["distinct_nontrivial"] = len(ks)
	ev.Coverage["outcomes"] = hist
	ev.Coverage["exhaustive"] = true
	ev.Coverage["rule"] = fmt.Sprintf("all pairs of logical keys within each module over ids/heights %v and addresses of lengths 1,2,3,4,5,6,7,8,16,17,18,19,20,21,32,152,153,254,255 (boundaries, 20 and 32, and every length whose length byte equals a store prefix byte in use) with contents all-0x00, all-0xff, a pattern A, A||0x00 and length-prefix look-alikes: both keys built first, then compared (injective, no shared backing array, no capture by another entity's iteration prefix, big-endian order = numeric order); stream key parsers inverted for every (receiver,sender) length pair; keeper set/get/delete/iterate round trips on a scratch context for the same values; distinct = logical keys", c18IDs)
	ev.Coverage["samples"] = []any{map[string]string{"a": ks[0].section + "(" + ks[0].args + ")", "b": ks[len(ks)-1].section + "(" + ks[len(ks)-1].args + ")"}}
	return viols
}

// c18RoundTrips: set A, set B, read A, delete/overwrite B, read A, iterate - through the keepers.
func c18RoundTrips(bad func(kind, f string, a ...any)) int {
	sc := &Scenario{Name: "c18-scratch", Genesis: BaseGenesis(mc.AcctSpec{Name: "A", Coins: Rich()})}
	e := sc.NewExec()
	w := e.W
	n := 0
	ctx, _ := w.Ctx().CacheContext()
	ek, wk, bk, sk := w.App.EnterpriseKeeper, w.App.WrkchainKeeper, w.App.BeaconKeeper, w.App.StreamKeeper
	// numeric ids: orders, chains, beacons, blocks, timestamps, limits
	for i, id := range c18IDs {
		po := enttypes.EnterpriseUndPurchaseOrder{Id: id, Purchaser: w.Bech("A"), Amount: sdk.NewInt64Coin(mc.Nund, int64(id%1000)+1), Status: enttypes.StatusRaised}
		wc := wrkchaintypes.WrkChain{WrkchainId: id, Moniker: fmt.Sprint("c", id), Owner: w.Bech("A")}
		bc := beacontypes.Beacon{BeaconId: id, Moniker: fmt.Sprint("b", id), Owner: w.Bech("A")}
		if i%2 == 0 { // every second entity has its optional fields and counters set, the others leave them empty / zero
			po.RaiseTime, po.CompletionTime = 1_700_000_000+uint64(i), 1_700_000_100+uint64(i)
			po.Decisions = enttypes.PurchaseOrderDecisions{{Signer: w.Bech("A"), Decision: enttypes.StatusAccepted, DecisionTime: 1_700_000_050}}
			wc.Name, wc.Genesis, wc.Type, wc.Lastblock, wc.NumBlocks, wc.LowestHeight, wc.RegTime = fmt.Sprint("Chain ", id), fmt.Sprint("0xgen", id), "geth", 500+uint64(i), 5, 100, 1_700_000_000
			bc.Name, bc.LastTimestampId, bc.FirstIdInState, bc.NumInState, bc.RegTime = fmt.Sprint("Beacon ", id), 40+uint64(i), 30, 10, 1_700_000_000
		}
		must(ek.SetPurchaseOrder(ctx, po))
		must(wk.SetWrkChain(ctx, wc))
		must(wk.SetWrkChainStorageLimit(ctx, id, id%7+1))
		must(bk.SetBeacon(ctx, bc))
		must(bk.SetBeaconStorageLimit(ctx, id, id%5+1))
		for _, h := range c18IDs {
			must(wk.SetWrkChainBlock(ctx, id, wrkchaintypes.WrkChainBlock{Height: h, Blockhash: fmt.Sprintf("%d/%d", id, h)}))
			must(bk.SetBeaconTimestamp(ctx, id, beacontypes.BeaconTimestamp{TimestampId: h, Hash: fmt.Sprintf("%d/%d", id, h)}))
		}
	}
	for _, id := range c18IDs {
		n++
		if po, ok := ek.GetPurchaseOrder(ctx, id); !ok || po.Id != id || po.Amount.Amount.Int64() != int64(id%1000)+1 {
			bad("roundtrip", "purchase order %d reads back as %+v", id, po)
		}
		if c, ok := wk.GetWrkChain(ctx, id); !ok || c.Moniker != fmt.Sprint("c", id) {
			bad("roundtrip", "wrkchain %d reads back as %+v", id, c)
		}
		if l, ok := wk.GetWrkChainStorageLimit(ctx, id); !ok || l.InStateLimit != id%7+1 {
			bad("roundtrip", "wrkchain %d limit reads back as %+v", id, l)
		}
		if b, ok := bk.GetBeacon(ctx, id); !ok || b.Moniker != fmt.Sprint("b", id) {
			bad("roundtrip", "beacon %d reads back as %+v", id, b)
		}
		if l, ok := bk.GetBeaconStorageLimit(ctx, id); !ok || l.InStateLimit != id%5+1 {
			bad("roundtrip", "beacon %d limit reads back as %+v", id, l)
		}
		var hs []uint64
		for _, b := range wk.GetAllWrkChainBlockHashes(ctx, id) {
			hs = append(hs, b.Height)
			if b.Blockhash != fmt.Sprintf("%d/%d", id, b.Height) {
				bad("roundtrip", "block %d/%d carries %q", id, b.Height, b.Blockhash)
			}
		}
		if !sort.SliceIsSorted(hs, func(i, j int) bool { return hs[i] < hs[j] }) || len(hs) != len(c18IDs) {
			bad("listing", "blocks of wrkchain %d listed as %v", id, hs)
		}
		var ts []uint64
		for _, b := range bk.GetAllBeaconTimestamps(ctx, id) {
			ts = append(ts, b.TimestampId)
			if b.Hash != fmt.Sprintf("%d/%d", id, b.TimestampId) {
				bad("roundtrip", "timestamp %d/%d carries %q", id, b.TimestampId, b.Hash)
			}
		}
		if !sort.SliceIsSorted(ts, func(i, j int) bool { return ts[i] < ts[j] }) || len(ts) != len(c18IDs) {
			bad("listing", "timestamps of beacon %d listed as %v", id, ts)
		}
	}
	asc := func(name string, ids []uint64) {
		n++
		if !sort.SliceIsSorted(ids, func(i, j int) bool { return ids[i] < ids[j] }) || len(ids) != len(c18IDs) {
			bad("listing", "%s listed as %v", name, ids)
		}
	}
	// listings: ascending, and every listed entity is exactly what its point read returns
	var ids []uint64
	for _, po := range ek.GetAllPurchaseOrders(ctx) {
		ids = append(ids, po.Id)
		if one, ok := ek.GetPurchaseOrder(ctx, po.Id); !ok || !protoEq(&one, &po) {
			bad("listing", "purchase order %d is listed as %+v but reads as %+v", po.Id, po, one)
		}
	}
	asc("purchase orders", ids)
	ids = nil
	for _, c := range wk.GetAllWrkChains(ctx) {
		ids = append(ids, c.WrkchainId)
		if one, ok := wk.GetWrkChain(ctx, c.WrkchainId); !ok || one != c {
			bad("listing", "wrkchain %d is listed as %+v but reads as %+v", c.WrkchainId, c, one)
		}
	}
	asc("wrkchains", ids)
	ids = nil
	for _, c := range bk.GetAllBeacons(ctx) {
		ids = append(ids, c.BeaconId)
		if one, ok := bk.GetBeacon(ctx, c.BeaconId); !ok || one != c {
			bad("listing", "beacon %d is listed as %+v but reads as %+v", c.BeaconId, c, one)
		}
	}
	asc("beacons", ids)
	n += c18Import(w, bad)
	// delete one block and one timestamp: neighbours unaffected
	for _, id := range c18IDs {
		store := ctx.KVStore(w.App.GetKey(wrkchaintypes.StoreKey))
		store.Delete(wrkchaintypes.WrkChainBlockKey(id, 256))
		n++
		if got := len(wk.GetAllWrkChainBlockHashes(ctx, id)); got != len(c18IDs)-1 {
			bad("roundtrip", "deleting block %d/256 left %d blocks", id, got)
		}
	}
	// addresses: locked, spent, whitelist, streams
	addrs := c18Addrs()
	for i, a := range addrs {
		acc := sdk.AccAddress(a)
		must(ek.SetLockedUndForAccount(ctx, enttypes.LockedUnd{Owner: acc.String(), Amount: sdk.NewInt64Coin(mc.Nund, int64(i)+1)}))
		must(ek.SetSpentEFUNDForAccount(ctx, enttypes.SpentEFUND{Owner: acc.String(), Amount: sdk.NewInt64Coin(mc.Nund, int64(i)+1001)}))
		must(ek.AddAddressToWhitelist(ctx, acc))
	}
	for i, a := range addrs {
		acc := sdk.AccAddress(a)
		n++
		if l := ek.GetLockedUndAmountForAccount(ctx, acc); l.Amount.Int64() != int64(i)+1 {
			bad("roundtrip", "locked eFUND of %x reads back as %s, stored %d", a, l, i+1)
		}
		if l := ek.GetSpentEFUNDAmountForAccount(ctx, acc); l.Amount.Int64() != int64(i)+1001 {
			bad("roundtrip", "spent eFUND of %x reads back as %s, stored %d", a, l, i+1001)
		}
		if !ek.AddressIsWhitelisted(ctx, acc) {
			bad("roundtrip", "%x not whitelisted after adding it", a)
		}
	}
	// remove every second address from the whitelist: the others stay
	for i, a := range addrs {
		if i%2 == 0 {
			must(ek.RemoveAddressFromWhitelist(ctx, sdk.AccAddress(a)))
		}
	}
	for i, a := range addrs {
		n++
		if got := ek.AddressIsWhitelisted(ctx, sdk.AccAddress(a)); got != (i%2 == 1) {
			bad("roundtrip", "whitelist entry of %x is %v after removing the others", a, got)
		}
	}
	var sa [][]byte
	for i, a := range addrs {
		if i%2 == 0 || len(a) <= 2 || len(a) == 32 || len(a) == 4 || len(a) == 20 {
			sa = append(sa, a)
		}
	}
	cnt := 0
	for _, r := range sa {
		for _, s := range sa {
			cnt++
			must(sk.SetStream(ctx, sdk.AccAddress(r), sdk.AccAddress(s), streamtypes.Stream{Deposit: sdk.NewInt64Coin(mc.Nund, int64(cnt)), FlowRate: int64(cnt)}))
		}
	}
	cnt = 0
	for _, r := range sa {
		for _, s := range sa {
			cnt++
			n++
			if st, ok := sk.GetStream(ctx, sdk.AccAddress(r), sdk.AccAddress(s)); !ok || st.FlowRate != int64(cnt) {
				bad("roundtrip", "stream %x<-%x reads back as %+v, stored rate %d", r, s, st, cnt)
			}
		}
	}
	seen := map[string]bool{}
	func() {
		defer func() {
			if p := recover(); p != nil {
				bad("listing", "listing all streams panics: %v", firstLine(fmt.Sprint(p)))
			}
		}()
		sk.IterateAllStreams(ctx, func(r, s sdk.AccAddress, st streamtypes.Stream) bool {
			n++
			want, ok := sk.GetStream(ctx, r, s)
			if !ok || want.FlowRate != st.FlowRate {
				bad("listing", "a listed stream is reported with receiver %x sender %x, which is not the pair it was created with", []byte(r), []byte(s))
			}
			seen[string(r)+"|"+string(s)] = true
			return false
		})
	}()
	if len(seen) != len(sa)*len(sa) {
		bad("listing", "listing streams returns %d distinct pairs, %d were created", len(seen), len(sa)*len(sa))
	}
	// the same through the paginated queries (per receiver / per sender), on the scratch context
	for _, r := range sa {
		var resp *streamtypes.QueryAllStreamsForReceiverResponse
		var err error
		func() {
			defer func() {
				if p := recover(); p != nil {
					err = fmt.Errorf("panic: %v", p)
				}
			}()
			resp, err = sk.AllStreamsForReceiver(sdk.WrapSDKContext(ctx), &streamtypes.QueryAllStreamsForReceiverRequest{ReceiverAddr: sdk.AccAddress(r).String(), Pagination: &query.PageRequest{Limit: 10000}})
		}()
		n++
		if err != nil || len(resp.Streams) != len(sa) {
			bad("listing", "AllStreamsForReceiver(%x) returned %v streams (err %v), %d exist", r, len(resp.GetStreams()), err, len(sa))
			continue
		}
		for _, x := range resp.Streams {
			sAddr, _ := sdk.AccAddressFromBech32(x.Sender)
			if st, ok := sk.GetStream(ctx, sdk.AccAddress(r), sAddr); !ok || st.FlowRate != x.Stream.FlowRate {
				bad("listing", "AllStreamsForReceiver(%x) reports sender %x for a stream that was not created with it", r, []byte(sAddr))
			}
		}
	}
	for _, s := range sa {
		var resp *streamtypes.QueryAllStreamsForSenderResponse
		var err error
		func() {
			defer func() {
				if p := recover(); p != nil {
					err = fmt.Errorf("panic: %v", p)
				}
			}()
			resp, err = sk.AllStreamsForSender(sdk.WrapSDKContext(ctx), &streamtypes.QueryAllStreamsForSenderRequest{SenderAddr: sdk.AccAddress(s).String(), Pagination: &query.PageRequest{Limit: 10000}})
		}()
		n++
		if err != nil || len(resp.Streams) != len(sa) {
			bad("listing", "AllStreamsForSender(%x) returned %v streams (err %v), %d exist", s, len(resp.GetStreams()), err, len(sa))
			continue
		}
		for _, x := range resp.Streams {
			rAddr, _ := sdk.AccAddressFromBech32(x.Receiver)
			sAddr, _ := sdk.AccAddressFromBech32(x.Sender)
			if st, ok := sk.GetStream(ctx, rAddr, sdk.AccAddress(s)); !ok || st.FlowRate != x.Stream.FlowRate || !bytes.Equal(sAddr, s) {
				bad("listing", "AllStreamsForSender(%x) reports a stream %x<-%x that was not created with this sender", s, []byte(rAddr), []byte(sAddr))
			}
		}
	}
	_ = binary.BigEndian
	return n
}

// c18Import: the write path of genesis import - every module's InitGenesis is given three entities with
// three records each on a scratch context; every one of them must read back as written.
func c18Import(w *mc.World, bad func(kind, f string, a ...any)) int {
	n := 0
	ctx, _ := w.Ctx().CacheContext()
	guard := func(what string, f func()) {
		defer func() {
			if p := recover(); p != nil {
				bad("import", "%s panics: %v", what, firstLine(fmt.Sprint(p)))
			}
		}()
		f()
	}
	owner := w.Bech("A")
	ids := []uint64{1, 2, 255, 256, 1 << 32}
	guard("beacon InitGenesis", func() {
		gs := beacontypes.GenesisState{Params: w.App.BeaconKeeper.GetParams(ctx), StartingBeaconId: 1 << 33}
		for _, id := range ids {
			ex := beacontypes.BeaconExport{Beacon: beacontypes.Beacon{BeaconId: id, Moniker: fmt.Sprint("b", id), Owner: owner, LastTimestampId: 3, FirstIdInState: 1, NumInState: 3}, InStateLimit: 5}
			for t := uint64(1); t <= 3; t++ {
				ex.Timestamps = append(ex.Timestamps, beacontypes.BeaconTimestampGenesisExport{Id: t, T: 1_600_000_000 + t, H: fmt.Sprintf("%d/%d", id, t)})
			}
			gs.RegisteredBeacons = append(gs.RegisteredBeacons, ex)
		}
		beaconmod.InitGenesis(ctx, w.App.BeaconKeeper, gs)
		for _, id := range ids {
			for t := uint64(1); t <= 3; t++ {
				n++
				ts, found := w.App.BeaconKeeper.GetBeaconTimestampByID(ctx, id, t)
				if !found || ts.Hash != fmt.Sprintf("%d/%d", id, t) || ts.TimestampId != t {
					bad("import", "timestamp %d of imported beacon %d reads back as %+v (found %v)", t, id, ts, found)
				}
			}
		}
	})
	guard("wrkchain InitGenesis", func() {
		gs := wrkchaintypes.GenesisState{Params: w.App.WrkchainKeeper.GetParams(ctx), StartingWrkchainId: 1 << 33}
		for _, id := range ids {
			ex := wrkchaintypes.WrkChainExport{Wrkchain: wrkchaintypes.WrkChain{WrkchainId: id, Moniker: fmt.Sprint("c", id), Type: "t", Owner: owner, Lastblock: 3, NumBlocks: 3, LowestHeight: 1}, InStateLimit: 5}
			for h := uint64(1); h <= 3; h++ {
				ex.Blocks = append(ex.Blocks, wrkchaintypes.WrkChainBlockGenesisExport{He: h, Bh: fmt.Sprintf("%d/%d", id, h), St: 1_600_000_000 + h})
			}
			gs.RegisteredWrkchains = append(gs.RegisteredWrkchains, ex)
		}
		wrkchainmod.InitGenesis(ctx, w.App.WrkchainKeeper, gs)
		for _, id := range ids {
			for h := uint64(1); h <= 3; h++ {
				n++
				b, ok := w.App.WrkchainKeeper.GetWrkChainBlock(ctx, id, h)
				if !ok || b.Blockhash != fmt.Sprintf("%d/%d", id, h) || b.Height != h {
					bad("import", "block %d of imported wrkchain %d reads back as %+v (found %v)", h, id, b, ok)
				}
			}
		}
	})
	return n
}

func init() {
	Checks["C18"] = func() *Check {
		return &Check{ID: "C18", Level: "exploration", Extra: c18Extra, Owns: ownsAny("keys."),
			Assumptions: []string{"covered exhaustively on the boundary grid only; the statement's 'randomly over the full domain' part is sampling and is not done", "addresses are raw byte strings of legal length (1..255)"}}
	}
}
