// Package scen binds the reference model to the real application: builds real messages from
// model messages, observes the implementation, compares, explores.
package scen

import (
	"fmt"
	"math/big"
	"strings"
	"time"

	sdkmath "cosmossdk.io/math"
	sdk "github.com/cosmos/cosmos-sdk/types"
	"github.com/cosmos/cosmos-sdk/x/authz"
	banktypes "github.com/cosmos/cosmos-sdk/x/bank/types"
	"github.com/cosmos/cosmos-sdk/x/feegrant"

	beacontypes "github.com/unification-com/mainchain/x/beacon/types"
	enttypes "github.com/unification-com/mainchain/x/enterprise/types"
	streamtypes "github.com/unification-com/mainchain/x/stream/types"
	wrkchaintypes "github.com/unification-com/mainchain/x/wrkchain/types"

	"verif/mc"
	"verif/model"
)

// AddrOf maps a model account name to the real address.
func AddrOf(w *mc.World, name string) sdk.AccAddress {
	if strings.HasPrefix(name, "mod:") {
		return mc.ModAddr(strings.TrimPrefix(name, "mod:"))
	}
	return w.Addr(name)
}

func BechOf(w *mc.World, name string) string {
	if strings.HasPrefix(name, "!") { // literal (malformed) address text
		return strings.TrimPrefix(name, "!")
	}
	if strings.Contains(name, "~") { // a well-formed address padded with white space where the ~ stands: malformed
		pad := map[bool]string{true: "\t", false: " "}[strings.Contains(name, "~~")]
		core := strings.ReplaceAll(name, "~", "")
		b := AddrOf(w, core).String()
		if strings.HasPrefix(name, "~") {
			b = pad + b
		}
		if strings.HasSuffix(name, "~") {
			b = b + pad
		}
		return b
	}
	return AddrOf(w, name).String()
}

// NameOfBech is the inverse of BechOf for tracked accounts.
func NameOfBech(w *mc.World, bech string) string {
	for _, m := range []string{"enterprise", "stream", "fee_collector", "distribution", "gov"} {
		if mc.ModAddr(m).String() == bech {
			return "mod:" + m
		}
	}
	return w.NameOf(bech)
}

func coin(den string, amt *big.Int) sdk.Coin {
	return sdk.Coin{Denom: den, Amount: sdkmath.NewIntFromBigInt(amt)}
}

var kindURL = map[string]string{
	model.EntRaise: "/mainchain.enterprise.v1.MsgUndPurchaseOrder", model.EntDecide: "/mainchain.enterprise.v1.MsgProcessUndPurchaseOrder",
	model.EntWhitelist: "/mainchain.enterprise.v1.MsgWhitelistAddress",
	model.WrkReg:       "/mainchain.wrkchain.v1.MsgRegisterWrkChain", model.WrkRec: "/mainchain.wrkchain.v1.MsgRecordWrkChainBlock",
	model.WrkPur: "/mainchain.wrkchain.v1.MsgPurchaseWrkChainStateStorage",
	model.BcnReg: "/mainchain.beacon.v1.MsgRegisterBeacon", model.BcnRec: "/mainchain.beacon.v1.MsgRecordBeaconTimestamp",
	model.BcnPur:    "/mainchain.beacon.v1.MsgPurchaseBeaconStateStorage",
	model.StrCreate: "/mainchain.stream.v1.MsgCreateStream", model.StrClaim: "/mainchain.stream.v1.MsgClaimStream",
	model.StrTopUp: "/mainchain.stream.v1.MsgTopUpDeposit", model.StrUpdate: "/mainchain.stream.v1.MsgUpdateFlowRate",
	model.StrCancel: "/mainchain.stream.v1.MsgCancelStream", model.BankSend: "/cosmos.bank.v1beta1.MsgSend",
	model.EntParams: "/mainchain.enterprise.v1.MsgUpdateParams", model.WrkParams: "/mainchain.wrkchain.v1.MsgUpdateParams",
	model.BcnParams: "/mainchain.beacon.v1.MsgUpdateParams", model.StrParams: "/mainchain.stream.v1.MsgUpdateParams",
}

// EntParamsReal renders a raw model parameter set as the real type.
func EntParamsReal(w *mc.World, p model.EntParamsRaw) enttypes.Params {
	s := ""
	if p.Signers != "" {
		var parts []string
		for _, e := range model.SignerEntries(p.Signers) {
			if e == "" {
				parts = append(parts, "")
			} else {
				parts = append(parts, BechOf(w, e))
			}
		}
		s = strings.Join(parts, ",")
	}
	return enttypes.Params{EntSigners: s, Denom: p.Denom, MinAccepts: p.Min, DecisionTimeLimit: p.Limit}
}

func DecFromString(s string) sdk.Dec {
	if s == "" {
		return sdk.Dec{}
	}
	return sdk.MustNewDecFromStr(s)
}

// BuildMsg builds the real message for a model message.
func BuildMsg(w *mc.World, m model.Msg) sdk.Msg {
	from := BechOf(w, m.From)
	BechOf := func(w *mc.World, name string) string { // shadowed: honours the upper-case spelling flag
		if m.Up {
			return strings.ToUpper(BechOf(w, name))
		}
		return BechOf(w, name)
	}
	if m.Up {
		from = strings.ToUpper(from)
	}
	switch m.Kind {
	case model.EntRaise:
		return &enttypes.MsgUndPurchaseOrder{Purchaser: from, Amount: coin(m.Den, m.AmtI())}
	case model.EntDecide:
		return &enttypes.MsgProcessUndPurchaseOrder{PurchaseOrderId: m.ID, Decision: enttypes.PurchaseOrderStatus(m.N), Signer: from}
	case model.EntWhitelist:
		return &enttypes.MsgWhitelistAddress{Address: BechOf(w, m.To), Signer: from, Action: enttypes.WhitelistAction(m.N)}
	case model.EntParams:
		return &enttypes.MsgUpdateParams{Authority: from, Params: EntParamsReal(w, m.Params.(model.EntParamsRaw))}
	case model.WrkParams:
		p := m.Params.(model.AnchorParams)
		return &wrkchaintypes.MsgUpdateParams{Authority: from, Params: wrkchaintypes.NewParams(p.FeeReg, p.FeeRec, p.FeePur, p.Denom, p.Default, p.Max)}
	case model.BcnParams:
		p := m.Params.(model.AnchorParams)
		return &beacontypes.MsgUpdateParams{Authority: from, Params: beacontypes.NewParams(p.FeeReg, p.FeeRec, p.FeePur, p.Denom, p.Default, p.Max)}
	case model.StrParams:
		return &streamtypes.MsgUpdateParams{Authority: from, Params: streamtypes.Params{ValidatorFee: DecFromString(m.Params.(string))}}
	case model.WrkReg:
		return &wrkchaintypes.MsgRegisterWrkChain{Moniker: m.S[0], Name: m.S[1], GenesisHash: m.S[2], BaseType: m.S[3], Owner: from}
	case model.WrkRec:
		return &wrkchaintypes.MsgRecordWrkChainBlock{WrkchainId: m.ID, Height: m.H, BlockHash: m.S[0], ParentHash: m.S[1], Hash1: m.S[2], Hash2: m.S[3], Hash3: m.S[4], Owner: from}
	case model.WrkPur:
		return &wrkchaintypes.MsgPurchaseWrkChainStateStorage{WrkchainId: m.ID, Number: m.N, Owner: from}
	case model.BcnReg:
		return &beacontypes.MsgRegisterBeacon{Moniker: m.S[0], Name: m.S[1], Owner: from}
	case model.BcnRec:
		return &beacontypes.MsgRecordBeaconTimestamp{BeaconId: m.ID, Hash: m.S[0], SubmitTime: m.T, Owner: from}
	case model.BcnPur:
		return &beacontypes.MsgPurchaseBeaconStateStorage{BeaconId: m.ID, Number: m.N, Owner: from}
	case model.StrCreate:
		return &streamtypes.MsgCreateStream{Sender: from, Receiver: BechOf(w, m.To), Deposit: coin(m.Den, m.AmtI()), FlowRate: m.Rate}
	case model.StrClaim:
		return &streamtypes.MsgClaimStream{Receiver: from, Sender: BechOf(w, m.To)}
	case model.StrTopUp:
		return &streamtypes.MsgTopUpDeposit{Sender: from, Receiver: BechOf(w, m.To), Deposit: coin(m.Den, m.AmtI())}
	case model.StrUpdate:
		return &streamtypes.MsgUpdateFlowRate{Sender: from, Receiver: BechOf(w, m.To), FlowRate: m.Rate}
	case model.StrCancel:
		return &streamtypes.MsgCancelStream{Sender: from, Receiver: BechOf(w, m.To)}
	case model.BankSend:
		return &banktypes.MsgSend{FromAddress: from, ToAddress: BechOf(w, m.To), Amount: sdk.Coins{coin(m.Den, m.AmtI())}}
	case model.AuthzGrant:
		exp := time.Unix(4_000_000_000, 0).UTC()
		g, err := authz.NewMsgGrant(AddrOf(w, m.From), AddrOf(w, m.To), authz.NewGenericAuthorization(kindURL[m.URL]), &exp)
		if err != nil {
			panic(err)
		}
		return g
	case model.AuthzExec:
		var inner []sdk.Msg
		for _, in := range m.Inner {
			inner = append(inner, BuildMsg(w, in))
		}
		e := authz.NewMsgExec(AddrOf(w, m.From), inner)
		return &e
	case model.FeeGrant:
		g, err := feegrant.NewMsgGrantAllowance(&feegrant.BasicAllowance{}, AddrOf(w, m.From), AddrOf(w, m.To))
		if err != nil {
			panic(err)
		}
		return g
	}
	panic("scen: cannot build message kind " + m.Kind)
}

// BuildTx builds the signing spec for a model transaction.
func BuildTx(w *mc.World, t model.Tx) mc.TxSpec {
	ts := mc.TxSpec{FeeGranter: t.FeeGranter, FeePayer: t.FeePayer, BadSig: t.BadSig, SeqDelta: t.SeqDelta}
	for _, m := range t.Msgs {
		ts.Msgs = append(ts.Msgs, BuildMsg(w, m))
	}
	if t.Signed != nil { // sign these (amino JSON), deliver t.Msgs with the signatures
		ts.AminoJSON = true
		ts.SwapMsgs = ts.Msgs
		ts.Msgs = nil
		for _, m := range t.Signed {
			ts.Msgs = append(ts.Msgs, BuildMsg(w, m))
		}
	}
	// fee coins must be sorted by denom
	var fee sdk.Coins
	for d := range t.Fee {
		fee = append(fee, coin(d, t.FeeOf(d)))
	}
	ts.Fee = fee.Sort()
	if t.Signers != nil {
		ts.Signers = t.Signers
	} else {
		ts.Signers = t.RequiredSigners()
	}
	return ts
}

// InitModel builds the model state that corresponds to a freshly created world; balances and
// supply of tracked accounts are read from the implementation once, at genesis.
func InitModel(w *mc.World, tracked []string) *model.State {
	sp := w.Spec
	s := &model.State{
		Now: timeNs(w.Time), Bal: map[string]map[string]*big.Int{}, Supply: map[string]*big.Int{},
		Ent: model.Ent{P: model.EntP{Denom: mc.Nund, Signers: append([]string{}, sp.EntSigner...), Min: sp.MinAccept, Limit: sp.Limit},
			Whitelist: map[string]bool{}, NextID: sp.StartPO, Orders: map[uint64]*model.Order{}, Locked: map[string]*big.Int{}, Spent: map[string]*big.Int{}, Completed: map[string]*big.Int{}},
		Wrk:    model.Anchor{P: anchP(sp.Wrk), NextID: sp.Wrk.StartID, Ents: map[uint64]*model.Entity{}},
		Bcn:    model.Anchor{P: anchP(sp.Beacon), NextID: sp.Beacon.StartID, Ents: map[uint64]*model.Entity{}},
		FeeNum: sp.StreamFee.String(), Str: map[string]*model.Stream{}, Grants: map[string]bool{}, FeeAl: map[string]bool{},
	}
	for _, n := range sp.Whitelist {
		s.Ent.Whitelist[n] = true
	}
	ctx := w.Ctx()
	for _, n := range tracked {
		for _, c := range w.App.BankKeeper.GetAllBalances(ctx, AddrOf(w, n)) {
			if s.Bal[n] == nil {
				s.Bal[n] = map[string]*big.Int{}
			}
			s.Bal[n][c.Denom] = c.Amount.BigInt()
		}
	}
	for _, d := range []string{mc.Nund, mc.Tok} {
		s.Supply[d] = w.App.BankKeeper.GetSupply(ctx, d).Amount.BigInt()
	}
	return s
}

func anchP(p mc.AnchorParams) model.AnchorParams {
	return model.AnchorParams{FeeReg: p.FeeReg, FeeRec: p.FeeRec, FeePur: p.FeePur, Denom: p.Denom, Default: p.Default, Max: p.Max}
}

func must(err error) {
	if err != nil {
		panic(fmt.Sprintf("harness: %v", err))
	}
}
