package scen

import (
	"fmt"
	"time"

	"verif/mc"
	"verif/model"
)

func ownedID(a *model.Anchor, owner string) uint64 {
	best := uint64(0)
	for id, e := range a.Ents {
		if e.Owner == owner && (best == 0 || id < best) {
			best = id
		}
	}
	return best
}

func wregMsg(owner string) model.Msg {
	return model.Msg{Kind: model.WrkReg, From: owner, S: []string{"mon-" + owner, "name", "0xgen", "geth"}}
}

// wrecMsg records the next height on the first chain owned by owner (chain 99 if it owns none,
// which fails in the handler after the pre-execution stage has passed).
func wrecMsg(m *model.State, owner string) model.Msg {
	id := ownedID(&m.Wrk, owner)
	h := uint64(1)
	if id == 0 {
		id = 99
	} else {
		h = m.Wrk.Ents[id].Last + 1
	}
	return model.Msg{Kind: model.WrkRec, From: owner, ID: id, H: h, S: []string{fmt.Sprintf("0xb%d", h), "0xp", "", "", ""}}
}

func efundScenario() *Scenario {
	far := GenesisTime.Unix() + 1_000_000_000
	g := BaseGenesis(
		mc.AcctSpec{Name: "S1", Coins: Coins(1000, 0)},
		mc.AcctSpec{Name: "PA", Coins: Rich()}, mc.AcctSpec{Name: "PB"}, mc.AcctSpec{Name: "PC", Coins: Coins(3, 0)}, mc.AcctSpec{Name: "PD", Coins: Coins(10, 0)},
		mc.AcctSpec{Name: "PV", Kind: mc.Continuous, Coins: Coins(1000, 0), Vesting: Coins(1000, 0), VestEnd: far},
		mc.AcctSpec{Name: "G", Coins: Rich()}, mc.AcctSpec{Name: "O", Coins: Rich()},
	)
	g.Whitelist = []string{"PA", "PB", "PC", "PD", "PV"}
	g.Wrk.FeeReg, g.Wrk.FeeRec = 10, 10
	g.Beacon.FeeReg, g.Beacon.FeeRec = 10, 10
	s := &Scenario{Name: "efund", Genesis: g, KeyTimeNs: false}
	ms := time.Millisecond
	act := func(name string, f func(m *model.State) []model.Tx) Action { return Action{Name: name, Dt: ms, Txs: f} }
	one := func(name string, tx model.Tx) Action {
		return act(name, func(*model.State) []model.Tx { return []model.Tx{tx} })
	}
	// setup letters (used by the prefix, and available to the search for interleavings)
	amts := map[string]int64{"PA": 50, "PB": 50, "PC": 5, "PD": 5}
	for _, p := range []string{"PA", "PB", "PC", "PD"} {
		p := p
		a := raise(p, amts[p], 8)
		a.Enabled = func(m *model.State, _ map[string]int) bool { return len(m.Ent.Orders) < 4 } // only the prefix uses them
		s.Actions = append(s.Actions, a)
	}
	for id := uint64(1); id <= 4; id++ {
		a := decide("S1", id, 2)
		idc := id
		a.Enabled = func(m *model.State, _ map[string]int) bool {
			o, ok := m.Ent.Orders[idc]
			return ok && o.Status == model.StRaised && len(o.Decisions) == 0
		}
		s.Actions = append(s.Actions, a)
	}
	s.Actions = append(s.Actions,
		one("feegrant(G->PA)", model.Tx{Msgs: []model.Msg{{Kind: model.FeeGrant, From: "G", To: "PA"}}}),
		Action{Name: "wait(1s)", Dt: time.Second},
	)
	s.Actions[len(s.Actions)-2].Enabled = func(m *model.State, _ map[string]int) bool { return !m.FeeAl["G|PA"] }
	// a granter that itself holds locked eFUND pays the fees of payers with locked eFUND
	fg := one("feegrant(PA->PC,PD)", model.Tx{Msgs: []model.Msg{{Kind: model.FeeGrant, From: "PA", To: "PC"}, {Kind: model.FeeGrant, From: "PA", To: "PD"}}})
	fg.PrefixOnly = true
	// the in-place software upgrade (enterprise parameters move into the module store): books and unlock rule are untouched by it
	s.Actions = append(s.Actions, upgradeAct())
	s.Actions = append(s.Actions, fg)
	s.Prefix = []string{"raise(PA,50)", "raise(PB,50)", "raise(PC,5)", "raise(PD,5)", "accept(S1,#1)", "accept(S1,#2)", "accept(S1,#3)", "accept(S1,#4)", "feegrant(G->PA)", "feegrant(PA->PC,PD)", "wait(1s)", "wait(1s)"}

	// fee-paying letters
	for _, p := range []string{"PA", "PB", "PC", "PD"} {
		p := p
		s.Actions = append(s.Actions, one("wreg("+p+",fee10)", model.Tx{Msgs: []model.Msg{wregMsg(p)}, Fee: fee(10)}))
		if p == "PA" || p == "PB" {
			s.Actions = append(s.Actions, act("wrec("+p+",fee10)", func(m *model.State) []model.Tx {
				return []model.Tx{{Msgs: []model.Msg{wrecMsg(m, p)}, Fee: fee(10)}}
			}))
		}
	}
	for _, p := range []string{"PA", "PB"} {
		p := p
		s.Actions = append(s.Actions,
			one("wreg+wreg("+p+",fee20)", model.Tx{Msgs: []model.Msg{wregMsg(p), wregMsg(p)}, Fee: fee(20)}),
			act("wreg+wrec#99("+p+",fee20)", func(m *model.State) []model.Tx {
				return []model.Tx{{Msgs: []model.Msg{wregMsg(p), {Kind: model.WrkRec, From: p, ID: 99, H: 1, S: []string{"0xb", "", "", "", ""}}}, Fee: fee(20)}}
			}),
			one("send("+p+"->O,1,fee10)", model.Tx{Msgs: []model.Msg{{Kind: model.BankSend, From: p, To: "O", Den: mc.Nund, Amt: "1"}}, Fee: fee(10)}),
		)
	}
	// PA (locked 50, rich) and PB (locked 50, nothing liquid) differ only in what is liquid: the variants that fail
	// in the ante chain after the unlock, and the non-anchoring transactions, are driven for one of them each
	s.Actions = append(s.Actions,
		one("wreg(PA,fee10,badsig)", model.Tx{Msgs: []model.Msg{wregMsg("PA")}, Fee: fee(10), BadSig: true}),
		one("wreg(PB,fee10,staleseq)", model.Tx{Msgs: []model.Msg{wregMsg("PB")}, Fee: fee(10), SeqDelta: -1}),
		one("stream(PB->O,60@1)", model.Tx{Msgs: []model.Msg{{Kind: model.StrCreate, From: "PB", To: "O", Den: mc.Nund, Amt: "60", Rate: 1}}}),
		one("send(PA->escrow,1)", model.Tx{Msgs: []model.Msg{{Kind: model.BankSend, From: "PA", To: model.ModEnt, Den: mc.Nund, Amt: "1"}}}),
		// two transactions in one block: one rejected in the ante chain after its unlock, then a paying one
		act("wreg(PA,fee10,badsig);wreg(PB,fee10)", func(*model.State) []model.Tx {
			return []model.Tx{{Msgs: []model.Msg{wregMsg("PA")}, Fee: fee(10), BadSig: true}, {Msgs: []model.Msg{wregMsg("PB")}, Fee: fee(10)}}
		}),
		act("wreg(PB,fee10,staleseq);wreg(PA,fee10);wreg(PD,fee10)", func(*model.State) []model.Tx {
			return []model.Tx{{Msgs: []model.Msg{wregMsg("PB")}, Fee: fee(10), SeqDelta: -1}, {Msgs: []model.Msg{wregMsg("PA")}, Fee: fee(10)}, {Msgs: []model.Msg{wregMsg("PD")}, Fee: fee(10)}}
		}),
	)
	s.Actions = append(s.Actions,
		one("breg(PA,fee10)", model.Tx{Msgs: []model.Msg{{Kind: model.BcnReg, From: "PA", S: []string{"bmon", "bname"}}}, Fee: fee(10)}),
		one("wreg(PA,fee10,granter=G)", model.Tx{Msgs: []model.Msg{wregMsg("PA")}, Fee: fee(10), FeeGranter: "G"}),
		one("wreg(PD,fee10,granter=PA)", model.Tx{Msgs: []model.Msg{wregMsg("PD")}, Fee: fee(10), FeeGranter: "PA"}),
		one("wreg(PC,fee10,granter=PA)", model.Tx{Msgs: []model.Msg{wregMsg("PC")}, Fee: fee(10), FeeGranter: "PA"}),
		// an explicit fee payer that is not the owner named in the message (both sign): the payer's eFUND is unlocked
		one("wreg(PD,fee10,payer=PA)", model.Tx{Msgs: []model.Msg{wregMsg("PD")}, Fee: fee(10), FeePayer: "PA"}),
		one("wreg(PA,fee10,payer=PB)", model.Tx{Msgs: []model.Msg{wregMsg("PA")}, Fee: fee(10), FeePayer: "PB"}),
		one("wreg(PA,fee10+1tok)", model.Tx{Msgs: []model.Msg{wregMsg("PA")}, Fee: map[string]string{mc.Nund: "10", mc.Tok: "1"}}),
		one("wreg(PA,fee60)", model.Tx{Msgs: []model.Msg{wregMsg("PA")}, Fee: fee(60)}),
		// messages of both modules in one transaction: the fee is still unlocked once
		one("wreg+breg(PA,fee20)", model.Tx{Msgs: []model.Msg{wregMsg("PA"), {Kind: model.BcnReg, From: "PA", S: []string{"bmon2", "bname"}}}, Fee: fee(20)}),
		one("breg+wreg(PB,fee20)", model.Tx{Msgs: []model.Msg{{Kind: model.BcnReg, From: "PB", S: []string{"bmon3", "bname"}}, wregMsg("PB")}, Fee: fee(20)}),
		// a further order caught between acceptance and completion, and a vesting purchaser
		Action{Name: "raise(PA,7)", Dt: ms, Txs: tx1(model.Msg{Kind: model.EntRaise, From: "PA", Den: mc.Nund, Amt: "7"}),
			Enabled: func(m *model.State, _ map[string]int) bool { return len(m.Ent.Orders) == 4 }},
		// raised and accepted in one block (completes two blocks later)
		Action{Name: "raise(PA,7);accept(S1,#5)", Dt: ms, Txs: func(*model.State) []model.Tx {
			return []model.Tx{{Msgs: []model.Msg{{Kind: model.EntRaise, From: "PA", Den: mc.Nund, Amt: "7"}}}, {Msgs: []model.Msg{{Kind: model.EntDecide, From: "S1", ID: 5, N: 2}}}}
		}, Enabled: func(m *model.State, _ map[string]int) bool { return len(m.Ent.Orders) == 4 }},
		Action{Name: "raise(PV,500);accept(S1,#5)", Dt: ms, Txs: func(*model.State) []model.Tx {
			return []model.Tx{{Msgs: []model.Msg{{Kind: model.EntRaise, From: "PV", Den: mc.Nund, Amt: "500"}}}, {Msgs: []model.Msg{{Kind: model.EntDecide, From: "S1", ID: 5, N: 2}}}}
		}, Enabled: func(m *model.State, _ map[string]int) bool { return len(m.Ent.Orders) == 4 }},
		Action{Name: "raise(PV,500)", Dt: ms, Txs: tx1(model.Msg{Kind: model.EntRaise, From: "PV", Den: mc.Nund, Amt: "500"}),
			Enabled: func(m *model.State, _ map[string]int) bool { return len(m.Ent.Orders) == 4 }},
		// the purchaser leaves the whitelist while its order is between raise / acceptance / completion
		Action{Name: "whitelist(S1,-PA)", Dt: ms, Txs: tx1(model.Msg{Kind: model.EntWhitelist, From: "S1", To: "PA", N: 2}),
			Enabled: func(m *model.State, _ map[string]int) bool {
				o, ok := m.Ent.Orders[5]
				return ok && o.Purchaser == "PA" && m.Ent.Whitelist["PA"]
			}},
		Action{Name: "accept(S1,#5)", Dt: ms, Txs: tx1(model.Msg{Kind: model.EntDecide, From: "S1", ID: 5, N: 2}),
			Enabled: func(m *model.State, _ map[string]int) bool {
				o, ok := m.Ent.Orders[5]
				return ok && len(o.Decisions) == 0
			}},
	)
	return s
}

// efundLast: the chain's *last* locked eFUND. One purchaser holds all of it (10, then 4 more); fees equal to,
// above and below what is locked take the account's record and the chain-wide total to exactly zero and
// back up again with a further order; a second purchaser joins later. (In `efund` four accounts hold
// locked eFUND, so the total never gets near zero within the depth bound.)
func efundLast() *Scenario {
	g := BaseGenesis(
		mc.AcctSpec{Name: "S1", Coins: Coins(1000, 0)},
		mc.AcctSpec{Name: "P", Coins: Coins(100, 0)}, mc.AcctSpec{Name: "Q", Coins: Coins(100, 0)}, mc.AcctSpec{Name: "O", Coins: Rich()},
	)
	g.Whitelist = []string{"P", "Q"}
	g.Wrk.FeeReg, g.Wrk.FeeRec = 10, 10
	g.Beacon.FeeReg, g.Beacon.FeeRec = 10, 10
	s := &Scenario{Name: "efund-last", Genesis: g, KeyTimeNs: false}
	ms := time.Millisecond
	one := func(name string, tx model.Tx) Action {
		return Action{Name: name, Dt: ms, Txs: func(*model.State) []model.Tx { return []model.Tx{tx} }}
	}
	nextRaised := func(m *model.State) uint64 {
		for id := uint64(1); id <= uint64(len(m.Ent.Orders)); id++ {
			if o, ok := m.Ent.Orders[id]; ok && o.Status == model.StRaised && len(o.Decisions) == 0 {
				return id
			}
		}
		return 0
	}
	s.Actions = append(s.Actions,
		raise("P", 10, 3), raise("P", 4, 3), raise("Q", 25, 3),
		Action{Name: "accept(S1,next raised)", Dt: ms,
			Txs: func(m *model.State) []model.Tx {
				return []model.Tx{{Msgs: []model.Msg{{Kind: model.EntDecide, From: "S1", ID: nextRaised(m), N: 2}}}}
			},
			Enabled: func(m *model.State, _ map[string]int) bool { return nextRaised(m) != 0 }},
		Action{Name: "wait(1s)", Dt: time.Second},
		one("wreg(P,fee10)", model.Tx{Msgs: []model.Msg{wregMsg("P")}, Fee: fee(10)}),
		Action{Name: "wrec(P,fee10)", Dt: ms, Txs: func(m *model.State) []model.Tx { return []model.Tx{{Msgs: []model.Msg{wrecMsg(m, "P")}, Fee: fee(10)}} }},
		one("breg(P,fee10)", model.Tx{Msgs: []model.Msg{{Kind: model.BcnReg, From: "P", S: []string{"bmon", "bname"}}}, Fee: fee(10)}),
		one("wreg(Q,fee10)", model.Tx{Msgs: []model.Msg{wregMsg("Q")}, Fee: fee(10)}),
		one("send(P->O,1,fee10)", model.Tx{Msgs: []model.Msg{{Kind: model.BankSend, From: "P", To: "O", Den: mc.Nund, Amt: "1"}}, Fee: fee(10)}),
	)
	s.Prefix = []string{"raise(P,10)", "accept(S1,next raised)", "wait(1s)", "wait(1s)"}
	return s
}

func init() {
	opt := map[Tier]Options{
		Quick:    {Depth: 3, Budget: 150 * time.Second, ReplayEvery: 16},
		Thorough: {Depth: 5, Budget: 15 * time.Minute, ReplayEvery: 16, MaxStates: 500000},
	}
	lastOpt := map[Tier]Options{
		Quick:    {Depth: 4, Budget: 60 * time.Second, ReplayEvery: 16},
		Thorough: {Depth: 8, Budget: 5 * time.Minute, ReplayEvery: 32, MaxStates: 300000},
	}
	Checks["C04"] = func() *Check {
		return &Check{
			ID: "C04",
			Runs: []Run{{S: efundScenario(), Opt: opt}, {S: withVisit(c02Orders(), nil), Opt: map[Tier]Options{
				Quick:    {Depth: 5, Budget: 60 * time.Second, ReplayEvery: 16},
				Thorough: {Depth: 7, Budget: 6 * time.Minute, ReplayEvery: 32, MaxStates: 300000},
			}}, {S: efundLast(), Opt: lastOpt}},
			// books identities of the implementation's own state after every block, registered invariant,
			// escrow balance moves only by completion / unlock, nothing can be sent into the escrow
			Owns:        ownsAny("ent.books", "invariant:enterprise", "bal:mod:enterprise", "tx.accept_unexpected:bank.send:blocked_recipient"),
			Assumptions: []string{"Cosmos-SDK bank/auth/feegrant semantics are the trusted substrate"},
		}
	}
	Checks["C05"] = func() *Check {
		return &Check{
			ID:   "C05",
			Runs: []Run{{S: efundScenario(), Opt: opt}, {S: efundLast(), Opt: lastOpt}},
			// unlocked eFUND is *spent as the fee*: balances of payers, granters and the fee collector follow the model
			// (an unlock that leaves the amount with the payer while a smaller fee is deducted moves no book, only balances)
			Owns:        ownsAny("ent.locked", "ent.spent", "ent.completion_spendable", "bal:"),
			Assumptions: []string{"whether the pre-execution stage passed is observed (the payer's sequence advanced), not modelled", "Cosmos-SDK vesting arithmetic is the trusted substrate"},
		}
	}
}

func withVisit(s *Scenario, v func(e *Exec) []Disc) *Scenario {
	s.Visit = v
	return s
}
