package scen

import (
	"bytes"
	"fmt"
	"math/big"
	"sort"
	"strings"
	"time"

	sdk "github.com/cosmos/cosmos-sdk/types"
	"github.com/cosmos/cosmos-sdk/types/query"
	vestexported "github.com/cosmos/cosmos-sdk/x/auth/vesting/exported"

	beacontypes "github.com/unification-com/mainchain/x/beacon/types"
	enttypes "github.com/unification-com/mainchain/x/enterprise/types"
	streamtypes "github.com/unification-com/mainchain/x/stream/types"
	wrkchaintypes "github.com/unification-com/mainchain/x/wrkchain/types"

	"verif/mc"
	"verif/model"
)

// Disc is one disagreement between the implementation and the reference model / an invariant.
type Disc struct {
	Kind   string            `json:"kind"` // decides which property owns it
	Detail string            `json:"detail"`
	Sig    map[string]string `json:"sig,omitempty"` // discrete facts for known-finding matching
}

func disc(kind, f string, a ...any) Disc { return Disc{Kind: kind, Detail: fmt.Sprintf(f, a...)} }

// implEnv reads SDK-owned vesting facts from the in-block state.
type implEnv struct{ w *mc.World }

func (e implEnv) LockedVesting(acc, denom string) *big.Int {
	ctx := e.w.Ctx()
	a := e.w.App.AccountKeeper.GetAccount(ctx, AddrOf(e.w, acc))
	if va, ok := a.(vestexported.VestingAccount); ok {
		return va.LockedCoins(ctx.BlockTime()).AmountOf(denom).BigInt()
	}
	return new(big.Int)
}

func timeNs(t time.Time) *big.Int {
	x := new(big.Int).Mul(big.NewInt(t.Unix()), big.NewInt(1_000_000_000))
	return x.Add(x, big.NewInt(int64(t.Nanosecond())))
}

func isNotFound(err error) bool {
	if err == nil {
		return false
	}
	s := err.Error()
	return strings.Contains(s, "NotFound") || strings.Contains(s, "not found") || strings.Contains(s, "doesn't exist") || strings.Contains(s, "does not exist")
}

// CompareBalances compares the bank balances of the tracked accounts (in-block or committed).
func CompareBalances(w *mc.World, m *model.State, tracked []string) []Disc {
	var out []Disc
	ctx := w.Ctx()
	for _, n := range tracked {
		got := map[string]*big.Int{}
		for _, c := range w.App.BankKeeper.GetAllBalances(ctx, AddrOf(w, n)) {
			got[c.Denom] = c.Amount.BigInt()
		}
		want := m.Bal[n]
		den := map[string]bool{}
		for d := range got {
			den[d] = true
		}
		for d := range want {
			den[d] = true
		}
		for d := range den {
			g, wv := got[d], want[d]
			if g == nil {
				g = new(big.Int)
			}
			if wv == nil {
				wv = new(big.Int)
			}
			if g.Cmp(wv) != 0 {
				out = append(out, Disc{Kind: "bal:" + n, Detail: fmt.Sprintf("balance of %s in %s: implementation %s, model %s", n, d, g, wv),
					Sig: map[string]string{"account": n, "denom": d}})
			}
		}
	}
	return out
}

// CompareEntBooks compares locked/spent per tracked account and the totals (in-block or committed),
// using keepers directly (the gRPC route only sees committed state).
func CompareEntBooks(w *mc.World, m *model.State, tracked []string) []Disc {
	var out []Disc
	ctx := w.Ctx()
	k := w.App.EnterpriseKeeper
	for _, n := range tracked {
		if strings.HasPrefix(n, "mod:") {
			continue
		}
		l := k.GetLockedUndAmountForAccount(ctx, AddrOf(w, n)).Amount.BigInt()
		if l.Cmp(m.LockedOf(n)) != 0 {
			out = append(out, disc("ent.locked", "locked eFUND of %s: implementation %s, model %s", n, l, m.LockedOf(n)))
		}
		sp := k.GetSpentEFUNDAmountForAccount(ctx, AddrOf(w, n)).Amount.BigInt()
		if sp.Cmp(m.SpentOf(n)) != 0 {
			out = append(out, disc("ent.spent", "spent eFUND of %s: implementation %s, model %s", n, sp, m.SpentOf(n)))
		}
	}
	return out
}

// Compare checks the committed state of the implementation against the model, through the real
// gRPC query router, plus the balance books. It is called after every block.
func Compare(w *mc.World, m *model.State, tracked []string) []Disc {
	var out []Disc
	add := func(d ...Disc) { out = append(out, d...) }

	// ---------------- enterprise
	{
		var pr enttypes.QueryParamsResponse
		if qe := w.Query("/mainchain.enterprise.v1.Query/Params", &enttypes.QueryParamsRequest{}, &pr); qe != nil {
			add(Disc{Kind: "listquery.failed", Detail: fmt.Sprintf("query %s fails on a reachable state: %v", "/mainchain.enterprise.v1.Query/Params", qe)})
		}
		want := EntParamsReal(w, model.EntParamsRaw{Denom: m.Ent.P.Denom, Signers: strings.Join(m.Ent.P.Signers, ","), Min: m.Ent.P.Min, Limit: m.Ent.P.Limit})
		if pr.Params != want {
			var st enttypes.Params
			add(paramsDisc(w, "ent", enttypes.StoreKey, enttypes.ParamsKey, &st, func() bool { return st == want }, fmt.Sprintf("enterprise params: implementation %+v, model %+v", pr.Params, want)))
		}
		ids := make([]uint64, 0)
		for id := range m.Ent.Orders {
			ids = append(ids, id)
		}
		sort.Slice(ids, func(i, j int) bool { return ids[i] < ids[j] })
		for _, id := range ids {
			o := m.Ent.Orders[id]
			var r enttypes.QueryEnterpriseUndPurchaseOrderResponse
			err := w.Query("/mainchain.enterprise.v1.Query/EnterpriseUndPurchaseOrder", &enttypes.QueryEnterpriseUndPurchaseOrderRequest{PurchaseOrderId: id}, &r)
			if err != nil {
				add(disc("ent.order", "order %d: query failed: %v", id, err))
				continue
			}
			po := r.PurchaseOrder
			if po.Id != id || po.Purchaser != BechOf(w, o.Purchaser) || po.Amount.Amount.BigInt().Cmp(o.Amount) != 0 || po.Amount.Denom != o.Denom ||
				int(po.Status) != o.Status || int64(po.RaiseTime) != o.Raised || len(po.Decisions) != len(o.Decisions) {
				add(Disc{Kind: "ent.order", Detail: fmt.Sprintf("order %d: implementation {purchaser %s amount %s status %d raised %d decisions %d}, model {purchaser %s amount %s%s status %d raised %d decisions %d}",
					id, NameOfBech(w, po.Purchaser), po.Amount, po.Status, po.RaiseTime, len(po.Decisions), o.Purchaser, o.Amount, o.Denom, o.Status, o.Raised, len(o.Decisions)),
					Sig: map[string]string{"impl_status": fmt.Sprint(int(po.Status)), "model_status": fmt.Sprint(o.Status)}})
				continue
			}
			for i, d := range po.Decisions {
				md := o.Decisions[i]
				if d.Signer != BechOf(w, md.Signer) || int(d.Decision) != md.Dec || int64(d.DecisionTime) != md.Time {
					add(disc("ent.order", "order %d decision %d: implementation %+v, model %+v", id, i, d, md))
				}
			}
		}
		// no order beyond the model's next id
		var r enttypes.QueryEnterpriseUndPurchaseOrderResponse
		if err := w.Query("/mainchain.enterprise.v1.Query/EnterpriseUndPurchaseOrder", &enttypes.QueryEnterpriseUndPurchaseOrderRequest{PurchaseOrderId: m.Ent.NextID}, &r); err == nil {
			add(disc("ent.order", "order %d exists in the implementation but was never raised in the model", m.Ent.NextID))
		}
		// whitelist
		var wl enttypes.QueryWhitelistResponse
		if qe := w.Query("/mainchain.enterprise.v1.Query/Whitelist", &enttypes.QueryWhitelistRequest{}, &wl); qe != nil {
			add(Disc{Kind: "listquery.failed", Detail: fmt.Sprintf("query %s fails on a reachable state: %v", "/mainchain.enterprise.v1.Query/Whitelist", qe)})
		}
		got := map[string]bool{}
		for _, a := range wl.Addresses {
			got[NameOfBech(w, a)] = true
		}
		if len(got) != len(m.Ent.Whitelist) {
			add(disc("ent.whitelist", "whitelist: implementation %v, model %v", got, m.Ent.Whitelist))
		} else {
			for a := range m.Ent.Whitelist {
				if !got[a] {
					add(disc("ent.whitelist", "whitelist: %s missing in implementation", a))
				}
			}
		}
		// books
		for _, n := range tracked {
			if strings.HasPrefix(n, "mod:") {
				continue
			}
			var lr enttypes.QueryLockedUndByAddressResponse
			if qe := w.Query("/mainchain.enterprise.v1.Query/LockedUndByAddress", &enttypes.QueryLockedUndByAddressRequest{Owner: BechOf(w, n)}, &lr); qe != nil {
				add(Disc{Kind: "listquery.failed", Detail: fmt.Sprintf("query %s fails on a reachable state: %v", "/mainchain.enterprise.v1.Query/LockedUndByAddress", qe)})
			}
			if lr.Amount.Amount.BigInt().Cmp(m.LockedOf(n)) != 0 {
				add(disc("ent.locked", "locked eFUND of %s: implementation %s, model %s", n, lr.Amount.Amount, m.LockedOf(n)))
			}
			var sr enttypes.QuerySpentEFUNDByAddressResponse
			if qe := w.Query("/mainchain.enterprise.v1.Query/SpentEFUNDByAddress", &enttypes.QuerySpentEFUNDByAddressRequest{Address: BechOf(w, n)}, &sr); qe != nil {
				add(Disc{Kind: "listquery.failed", Detail: fmt.Sprintf("query %s fails on a reachable state: %v", "/mainchain.enterprise.v1.Query/SpentEFUNDByAddress", qe)})
			}
			if sr.Amount.Amount.BigInt().Cmp(m.SpentOf(n)) != 0 {
				add(disc("ent.spent", "spent eFUND of %s: implementation %s, model %s", n, sr.Amount.Amount, m.SpentOf(n)))
			}
		}
	}

	// ---------------- anchoring
	add(compareAnchor(w, m, true)...)
	add(compareAnchor(w, m, false)...)

	// ---------------- streams
	{
		var pr streamtypes.QueryParamsResponse
		if qe := w.Query("/mainchain.stream.v1.Query/Params", &streamtypes.QueryParamsRequest{}, &pr); qe != nil {
			add(Disc{Kind: "listquery.failed", Detail: fmt.Sprintf("query %s fails on a reachable state: %v", "/mainchain.stream.v1.Query/Params", qe)})
		}
		if !pr.Params.ValidatorFee.Equal(DecFromString(m.FeeNum)) {
			var st streamtypes.Params
			add(paramsDisc(w, "str", streamtypes.StoreKey, streamtypes.ParamsKey, &st, func() bool { return !st.ValidatorFee.IsNil() && st.ValidatorFee.Equal(DecFromString(m.FeeNum)) }, fmt.Sprintf("stream validator fee: implementation %s, model %s", pr.Params.ValidatorFee, m.FeeNum)))
		}
		var sr streamtypes.QueryStreamsResponse
		if qe := w.Query("/mainchain.stream.v1.Query/Streams", &streamtypes.QueryStreamsRequest{Pagination: &query.PageRequest{Limit: 1000}}, &sr); qe != nil {
			add(Disc{Kind: "listquery.failed", Detail: fmt.Sprintf("query %s fails on a reachable state: %v", "/mainchain.stream.v1.Query/Streams", qe)})
		}
		seen := map[string]bool{}
		for _, r := range sr.Streams {
			k := NameOfBech(w, r.Receiver) + "|" + NameOfBech(w, r.Sender)
			seen[k] = true
			st, ok := m.Str[k]
			if !ok {
				add(disc("str.state", "stream %s exists in the implementation but not in the model", k))
				continue
			}
			s := r.Stream
			if s.Deposit.Denom != st.Denom || s.Deposit.Amount.BigInt().Cmp(st.D) != 0 || s.FlowRate != st.R {
				add(disc("str.deposit", "stream %s: implementation {deposit %s rate %d}, model {deposit %s%s rate %d}", k, s.Deposit, s.FlowRate, st.D, st.Denom, st.R))
			}
			if timeNs(s.DepositZeroTime).Cmp(st.Z) != 0 {
				add(Disc{Kind: "str.zerotime", Detail: fmt.Sprintf("stream %s: deposit-zero time implementation %s, model %s ns", k, s.DepositZeroTime.UTC().Format(time.RFC3339Nano), st.Z)})
			}
			if timeNs(s.LastOutflowTime).Cmp(st.L) != 0 {
				add(Disc{Kind: "str.lastoutflow", Detail: fmt.Sprintf("stream %s: last outflow time implementation %s, model %s ns (now %s)", k, s.LastOutflowTime.UTC().Format(time.RFC3339Nano), st.L, m.Now)})
			}
		}
		for k := range m.Str {
			if !seen[k] {
				add(disc("str.state", "stream %s exists in the model but not in the implementation", k))
			}
		}
		for k, st := range m.Str {
			if why := m.StreamInvariant(st); why != "" {
				add(disc("model.selfcheck", "model stream %s: %s", k, why))
			}
		}
	}

	// ---------------- bank
	add(CompareBalances(w, m, tracked)...)
	{
		ctx := w.Ctx()
		for d, v := range m.Supply {
			got := w.App.BankKeeper.GetSupply(ctx, d).Amount.BigInt()
			if got.Cmp(v) != 0 {
				add(disc("supply", "supply of %s: implementation %s, model %s", d, got, v))
			}
		}
	}
	return out
}

// paramsDisc reports a parameter mismatch between the params query and the model. If the bytes in the
// store still decode to what the model holds, only the *view* is stale (parameters served from
// somewhere else than the store): both sides still agree about the state, so the search goes on past it.
func paramsDisc(w *mc.World, mod, storeKey string, key []byte, into interface {
	Unmarshal([]byte) error
}, equalsModel func() bool, detail string) Disc {
	raw := w.Ctx().KVStore(w.App.GetKey(storeKey)).Get(key)
	if raw != nil && into.Unmarshal(raw) == nil && equalsModel() {
		return Disc{Kind: "params.stale_view." + mod, Detail: detail + " - while the parameters in the store are the model's: the query (and whatever else reads parameters the same way) does not read the store"}
	}
	return Disc{Kind: "params." + mod, Detail: detail}
}

func compareAnchor(w *mc.World, m *model.State, wrk bool) (out []Disc) {
	add := func(d ...Disc) { out = append(out, d...) }
	a := &m.Bcn
	mod := "bcn"
	if wrk {
		a, mod = &m.Wrk, "wrk"
	}
	// a registry that cannot be read back at all (a keeper panics while iterating its own store) is
	// a registry that does not say who registered what
	defer func() {
		if p := recover(); p != nil {
			out = append(out, Disc{Kind: "anch.identity", Detail: fmt.Sprintf("%s: reading the module's registry on a reachable committed state panics: %v", mod, p)})
		}
	}()
	// params
	if wrk {
		var pr wrkchaintypes.QueryParamsResponse
		if qe := w.Query("/mainchain.wrkchain.v1.Query/Params", &wrkchaintypes.QueryParamsRequest{}, &pr); qe != nil {
			add(Disc{Kind: "listquery.failed", Detail: fmt.Sprintf("query %s fails on a reachable state: %v", "/mainchain.wrkchain.v1.Query/Params", qe)})
		}
		want := wrkchaintypes.NewParams(a.P.FeeReg, a.P.FeeRec, a.P.FeePur, a.P.Denom, a.P.Default, a.P.Max)
		if pr.Params != want {
			var st wrkchaintypes.Params
			add(paramsDisc(w, "wrk", wrkchaintypes.StoreKey, wrkchaintypes.ParamsKey, &st, func() bool { return st == want }, fmt.Sprintf("wrkchain params: implementation %+v, model %+v", pr.Params, want)))
		}
	} else {
		var pr beacontypes.QueryParamsResponse
		if qe := w.Query("/mainchain.beacon.v1.Query/Params", &beacontypes.QueryParamsRequest{}, &pr); qe != nil {
			add(Disc{Kind: "listquery.failed", Detail: fmt.Sprintf("query %s fails on a reachable state: %v", "/mainchain.beacon.v1.Query/Params", qe)})
		}
		want := beacontypes.NewParams(a.P.FeeReg, a.P.FeeRec, a.P.FeePur, a.P.Denom, a.P.Default, a.P.Max)
		if pr.Params != want {
			var st beacontypes.Params
			add(paramsDisc(w, "bcn", beacontypes.StoreKey, beacontypes.ParamsKey, &st, func() bool { return st == want }, fmt.Sprintf("beacon params: implementation %+v, model %+v", pr.Params, want)))
		}
	}
	ids := make([]uint64, 0)
	for id := range a.Ents {
		ids = append(ids, id)
	}
	sort.Slice(ids, func(i, j int) bool { return ids[i] < ids[j] })
	for _, id := range ids {
		e := a.Ents[id]
		var owner string
		var ident []string
		var last, num, low, reg uint64
		if wrk {
			var r wrkchaintypes.QueryWrkChainResponse
			if err := w.Query("/mainchain.wrkchain.v1.Query/WrkChain", &wrkchaintypes.QueryWrkChainRequest{WrkchainId: id}, &r); err != nil {
				add(disc("anch.identity", "wrkchain %d: query failed: %v", id, err))
				continue
			}
			c := r.Wrkchain
			owner, ident, last, num, low, reg = c.Owner, []string{c.Moniker, c.Name, c.Genesis, c.Type}, c.Lastblock, c.NumBlocks, c.LowestHeight, c.RegTime
			if c.WrkchainId != id {
				add(disc("anch.identity", "wrkchain %d: stored id %d", id, c.WrkchainId))
			}
		} else {
			var r beacontypes.QueryBeaconResponse
			if err := w.Query("/mainchain.beacon.v1.Query/Beacon", &beacontypes.QueryBeaconRequest{BeaconId: id}, &r); err != nil {
				add(disc("anch.identity", "beacon %d: query failed: %v", id, err))
				continue
			}
			c := r.Beacon
			owner, ident, last, num, low, reg = c.Owner, []string{c.Moniker, c.Name}, c.LastTimestampId, c.NumInState, c.FirstIdInState, c.RegTime
			if c.BeaconId != id {
				add(disc("anch.identity", "beacon %d: stored id %d", id, c.BeaconId))
			}
		}
		if owner != BechOf(w, e.Owner) || strings.Join(ident, "\x00") != strings.Join(e.Ident, "\x00") || int64(reg) != e.RegTime {
			add(disc("anch.identity", "%s %d: implementation {owner %s ident %q reg %d}, model {owner %s ident %q reg %d}", mod, id, NameOfBech(w, owner), ident, reg, e.Owner, e.Ident, e.RegTime))
		}
		mlow := uint64(0)
		for h := range e.InState {
			if mlow == 0 || h < mlow {
				mlow = h
			}
		}
		if last != e.Last || num != uint64(len(e.InState)) || low != mlow {
			add(disc("anch.meta", "%s %d counters: implementation {last %d num %d lowest %d}, model {last %d num %d lowest %d}", mod, id, last, num, low, e.Last, len(e.InState), mlow))
		}
		// storage query
		var cl, cu, mx, mp uint64
		var serr error
		if wrk {
			var r wrkchaintypes.QueryWrkChainStorageResponse
			serr = w.Query("/mainchain.wrkchain.v1.Query/WrkChainStorage", &wrkchaintypes.QueryWrkChainStorageRequest{WrkchainId: id}, &r)
			cl, cu, mx, mp = r.CurrentLimit, r.CurrentUsed, r.Max, r.MaxPurchasable
		} else {
			var r beacontypes.QueryBeaconStorageResponse
			serr = w.Query("/mainchain.beacon.v1.Query/BeaconStorage", &beacontypes.QueryBeaconStorageRequest{BeaconId: id}, &r)
			cl, cu, mx, mp = r.CurrentLimit, r.CurrentUsed, r.Max, r.MaxPurchasable
		}
		if serr != nil {
			add(disc("anch.storage", "%s %d storage query failed: %v", mod, id, serr))
		} else {
			if cl != e.Limit {
				add(Disc{Kind: "anch.limit", Detail: fmt.Sprintf("%s %d in-state limit: implementation %d, model %d", mod, id, cl, e.Limit)})
			}
			if cu != uint64(len(e.InState)) || mx != a.P.Max || mp != a.Purchasable(e) {
				add(Disc{Kind: "anch.storage", Detail: fmt.Sprintf("%s %d storage query: implementation {used %d max %d purchasable %d}, model {used %d max %d purchasable %d}", mod, id, cu, mx, mp, len(e.InState), a.P.Max, a.Purchasable(e)),
					Sig: map[string]string{"impl_purchasable": fmt.Sprint(mp), "model_purchasable": fmt.Sprint(a.Purchasable(e)), "limit_gt_max": fmt.Sprint(e.Limit > a.P.Max)}})
			}
		}
		// every record ever accepted
		hs := make([]uint64, 0, len(e.Ever))
		for h := range e.Ever {
			hs = append(hs, h)
		}
		sort.Slice(hs, func(i, j int) bool { return hs[i] < hs[j] })
		for _, h := range hs {
			rec := e.Ever[h]
			_, in := e.InState[h]
			var got []string
			var gh, gt uint64
			var err error
			if wrk {
				var r wrkchaintypes.QueryWrkChainBlockResponse
				err = w.Query("/mainchain.wrkchain.v1.Query/WrkChainBlock", &wrkchaintypes.QueryWrkChainBlockRequest{WrkchainId: id, Height: h}, &r)
				if err == nil {
					b := r.Block
					got, gh, gt = []string{b.Blockhash, b.Parenthash, b.Hash1, b.Hash2, b.Hash3}, b.Height, b.SubTime
					if r.Owner != owner || r.WrkchainId != id {
						add(disc("anch.record", "wrk %d height %d: record reports owner %s id %d", id, h, r.Owner, r.WrkchainId))
					}
				}
			} else {
				var r beacontypes.QueryBeaconTimestampResponse
				err = w.Query("/mainchain.beacon.v1.Query/BeaconTimestamp", &beacontypes.QueryBeaconTimestampRequest{BeaconId: id, TimestampId: h}, &r)
				if err == nil {
					b := r.Timestamp
					got, gh, gt = []string{b.Hash}, b.TimestampId, b.SubmitTime
				}
			}
			switch {
			case err != nil && in:
				add(disc("anch.missing", "%s %d record %d was accepted and is within the retention limit, but the query fails: %v", mod, id, h, err))
			case err == nil && !in:
				add(disc("anch.unpruned", "%s %d record %d should have been pruned but is still served", mod, id, h))
			case err == nil && in:
				wantT := rec.T
				if wrk {
					wantT = uint64(rec.At)
				}
				if gh != h || strings.Join(got, "\x00") != strings.Join(rec.S, "\x00") || gt != wantT {
					add(disc("anch.record", "%s %d record %d: implementation {id %d hashes %q time %d}, accepted {hashes %q time %d}", mod, id, h, gh, got, gt, rec.S, wantT))
				}
			case err != nil && !isNotFound(err):
				add(disc("anch.record", "%s %d record %d: unexpected query error %v", mod, id, h, err))
			}
		}
	}
	// the registry as the keeper lists it (what genesis export and the legacy listings walk) carries the
	// same identities, one entry per registration, ascending
	{
		ctx := w.Ctx()
		type ent struct {
			id             uint64
			owner          string
			ident          []string
			reg            uint64
			last, num, low uint64
		}
		var got []ent
		if wrk {
			for _, c := range w.App.WrkchainKeeper.GetAllWrkChains(ctx) {
				got = append(got, ent{c.WrkchainId, c.Owner, []string{c.Moniker, c.Name, c.Genesis, c.Type}, c.RegTime, c.Lastblock, c.NumBlocks, c.LowestHeight})
			}
		} else {
			for _, c := range w.App.BeaconKeeper.GetAllBeacons(ctx) {
				got = append(got, ent{c.BeaconId, c.Owner, []string{c.Moniker, c.Name}, c.RegTime, c.LastTimestampId, c.NumInState, c.FirstIdInState})
			}
		}
		if len(got) != len(ids) {
			add(disc("anch.identity", "%s registry lists %d entries, %d were registered", mod, len(got), len(ids)))
		}
		for i, g := range got {
			if i >= len(ids) {
				break
			}
			e := a.Ents[ids[i]]
			if g.id != ids[i] || g.owner != BechOf(w, e.Owner) || strings.Join(g.ident, "\x00") != strings.Join(e.Ident, "\x00") || int64(g.reg) != e.RegTime {
				add(disc("anch.identity", "%s registry entry %d: listed {id %d owner %s ident %q reg %d}, registered {id %d owner %s ident %q reg %d}", mod, i, g.id, NameOfBech(w, g.owner), g.ident, g.reg, ids[i], e.Owner, e.Ident, e.RegTime))
			}
			if g.last != e.Last || g.num != uint64(len(e.InState)) {
				add(disc("anch.meta", "%s registry entry %d (id %d) counters: listed {last %d num %d}, model {last %d num %d}", mod, i, g.id, g.last, g.num, e.Last, len(e.InState)))
			}
		}
	}
	// nothing registered beyond the model's counter
	if wrk {
		var r wrkchaintypes.QueryWrkChainResponse
		if err := w.Query("/mainchain.wrkchain.v1.Query/WrkChain", &wrkchaintypes.QueryWrkChainRequest{WrkchainId: a.NextID}, &r); err == nil {
			add(disc("anch.identity", "wrkchain %d exists in the implementation but not in the model", a.NextID))
		}
	} else {
		var r beacontypes.QueryBeaconResponse
		if err := w.Query("/mainchain.beacon.v1.Query/Beacon", &beacontypes.QueryBeaconRequest{BeaconId: a.NextID}, &r); err == nil {
			add(disc("anch.identity", "beacon %d exists in the implementation but not in the model", a.NextID))
		}
	}
	return out
}

// StoresDigest returns the raw dumps of the four custom module stores.
func StoresDump(w *mc.World) map[string][]mc.KV {
	ctx := w.Ctx()
	out := map[string][]mc.KV{}
	for _, s := range mc.CustomStores {
		out[s] = w.StoreDump(ctx, s)
	}
	return out
}

// DiffStores lists the keys that differ between two dumps of one store.
func DiffStores(a, b []mc.KV) []string {
	am := map[string][]byte{}
	for _, kv := range a {
		am[string(kv.K)] = kv.V
	}
	var out []string
	for _, kv := range b {
		v, ok := am[string(kv.K)]
		if !ok || !bytes.Equal(v, kv.V) {
			out = append(out, fmt.Sprintf("%x", kv.K))
		}
		delete(am, string(kv.K))
	}
	for k := range am {
		out = append(out, fmt.Sprintf("%x", []byte(k)))
	}
	sort.Strings(out)
	return out
}

// Invariants runs every invariant registered with the crisis keeper on the committed state.
func Invariants(w *mc.World) (out []Disc) {
	ctx := w.Ctx()
	for _, r := range w.App.CrisisKeeper.Routes() {
		func() {
			defer func() {
				if p := recover(); p != nil {
					out = append(out, Disc{Kind: "invariant:" + r.FullRoute(), Detail: fmt.Sprintf("invariant %s panicked: %v", r.FullRoute(), p)})
				}
			}()
			if msg, broken := r.Invar(ctx); broken {
				out = append(out, Disc{Kind: "invariant:" + r.FullRoute(), Detail: msg})
			}
		}()
	}
	return
}

var _ = sdk.AccAddress{}

// SelfConsistency checks identities of the implementation's own committed state that need no
// reference model: the eFUND books (C04), the stream escrow backing and sustain rule (C10/C11),
// and every invariant registered with the crisis keeper. It runs after every block, also when
// the model has already diverged from the implementation.
func SelfConsistency(w *mc.World) []Disc {
	var out []Disc
	add := func(d ...Disc) { out = append(out, d...) }
	ctx := w.Ctx()
	ek := w.App.EnterpriseKeeper
	denom := ek.GetParamDenom(ctx)
	func() {
		defer func() {
			if p := recover(); p != nil {
				add(disc("ent.books", "reading the eFUND books panicked: %v", p))
			}
		}()
		sumL, sumS := new(big.Int), new(big.Int)
		per := map[string]*big.Int{}
		for _, l := range ek.GetAllLockedUnds(ctx) {
			sumL.Add(sumL, l.Amount.Amount.BigInt())
			per[l.Owner] = new(big.Int).Set(l.Amount.Amount.BigInt())
		}
		for _, sp := range ek.GetAllSpentEFUNDs(ctx) {
			sumS.Add(sumS, sp.Amount.Amount.BigInt())
			if per[sp.Owner] == nil {
				per[sp.Owner] = new(big.Int)
			}
			per[sp.Owner].Add(per[sp.Owner], sp.Amount.Amount.BigInt())
		}
		comp := map[string]*big.Int{}
		for _, po := range ek.GetAllPurchaseOrders(ctx) {
			if po.Status == enttypes.StatusCompleted {
				if comp[po.Purchaser] == nil {
					comp[po.Purchaser] = new(big.Int)
				}
				comp[po.Purchaser].Add(comp[po.Purchaser], po.Amount.Amount.BigInt())
			}
		}
		for a, v := range per {
			c := comp[a]
			if c == nil {
				c = new(big.Int)
			}
			if v.Cmp(c) != 0 {
				add(disc("ent.books", "%s: locked + spent = %s but its completed purchase orders sum to %s", NameOfBech(w, a), v, c))
			}
		}
		for a, c := range comp {
			if per[a] == nil && c.Sign() != 0 {
				add(disc("ent.books", "%s: no locked/spent record but completed purchase orders sum to %s", NameOfBech(w, a), c))
			}
		}
		tl := ek.GetTotalLockedUnd(ctx).Amount.BigInt()
		ts := ek.GetTotalSpentEFUND(ctx).Amount.BigInt()
		esc := w.App.BankKeeper.GetBalance(ctx, mc.ModAddr("enterprise"), denom).Amount.BigInt()
		if tl.Cmp(sumL) != 0 || esc.Cmp(sumL) != 0 {
			add(disc("ent.books", "escrow balance %s, reported total locked %s, sum of per-account locked %s", esc, tl, sumL))
		}
		if ts.Cmp(sumS) != 0 {
			add(disc("ent.books", "reported total spent %s, sum of per-account spent %s", ts, sumS))
		}
		for _, c := range w.App.BankKeeper.GetAllBalances(ctx, mc.ModAddr("enterprise")) {
			if c.Denom != denom && !c.IsZero() {
				add(disc("ent.books", "enterprise escrow holds %s, which is not eFUND", c))
			}
		}
	}()
	// streams
	func() {
		defer func() {
			if p := recover(); p != nil {
				add(disc("str.escrow", "reading the streams panicked: %v", p))
			}
		}()
		sums := map[string]*big.Int{}
		w.App.StreamKeeper.IterateAllStreams(ctx, func(recv, sender sdk.AccAddress, s streamtypes.Stream) bool {
			k := NameOfBech(w, recv.String()) + "|" + NameOfBech(w, sender.String())
			if sums[s.Deposit.Denom] == nil {
				sums[s.Deposit.Denom] = new(big.Int)
			}
			sums[s.Deposit.Denom].Add(sums[s.Deposit.Denom], s.Deposit.Amount.BigInt())
			// advertised schedule must be sustainable: D >= r * floor(Z - L) for D > 0
			zl := new(big.Int).Sub(timeNs(s.DepositZeroTime), timeNs(s.LastOutflowTime))
			if zl.Sign() > 0 && s.Deposit.Amount.IsPositive() {
				need := new(big.Int).Mul(new(big.Int).Div(zl, big.NewInt(1_000_000_000)), big.NewInt(s.FlowRate))
				if s.Deposit.Amount.BigInt().Cmp(need) < 0 {
					add(disc("str.sustain", "stream %s: deposit %s cannot sustain rate %d from last outflow %s to advertised zero time %s (needs %s)", k, s.Deposit.Amount, s.FlowRate,
						s.LastOutflowTime.UTC().Format(time.RFC3339Nano), s.DepositZeroTime.UTC().Format(time.RFC3339Nano), need))
				}
			}
			return false
		})
		for _, c := range w.App.BankKeeper.GetAllBalances(ctx, mc.ModAddr("stream")) {
			s := sums[c.Denom]
			if s == nil {
				s = new(big.Int)
			}
			if c.Amount.BigInt().Cmp(s) != 0 {
				add(disc("str.escrow", "stream escrow holds %s but the remaining deposits sum to %s%s", c, s, c.Denom))
			}
			delete(sums, c.Denom)
		}
		for d, s := range sums {
			if s.Sign() != 0 {
				add(disc("str.escrow", "stream escrow holds 0%s but the remaining deposits sum to %s", d, s))
			}
		}
	}()
	add(Invariants(w)...)
	return out
}
