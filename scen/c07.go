package scen

import (
	"fmt"
	"strings"
	"time"

	"verif/mc"
	"verif/model"
)

const maxU64 = ^uint64(0)

type anchorOpts struct {
	name      string
	heights   bool // C07: height choices, non-owner submissions
	purchases bool // C08: purchases incl. nested / overflowing, governance of limits
	identity  bool // C09: many registrations, field sizes, (signer,id) pairs
}

func recHashes(m *model.State, id, h uint64) []string {
	n := 0
	if e, ok := m.Wrk.Ents[id]; ok {
		n = len(e.Ever)
	}
	return []string{fmt.Sprintf("0xb-%d-%d-%d", id, h, n), fmt.Sprintf("0xp-%d", n), "0xh1", "", fmt.Sprintf("0xh3-%d", h)}
}

func wrecAct(name, signer string, id uint64, pick func(last uint64) uint64) Action {
	return Action{Name: name, Dt: time.Millisecond, Txs: func(m *model.State) []model.Tx {
		last := uint64(0)
		if e, ok := m.Wrk.Ents[id]; ok {
			last = e.Last
		}
		h := pick(last)
		return []model.Tx{{Msgs: []model.Msg{{Kind: model.WrkRec, From: signer, ID: id, H: h, S: recHashes(m, id, h)}}, Fee: fee(m.Wrk.P.FeeRec)}}
	}}
}

func brecAct(name, signer string, id uint64) Action {
	return Action{Name: name, Dt: time.Millisecond, Txs: func(m *model.State) []model.Tx {
		n := 0
		if e, ok := m.Bcn.Ents[id]; ok {
			n = len(e.Ever)
		}
		return []model.Tx{{Msgs: []model.Msg{{Kind: model.BcnRec, From: signer, ID: id, S: []string{fmt.Sprintf("0xts-%d-%d", id, n)}, T: uint64(1_600_000_000 + n)}}, Fee: fee(m.Bcn.P.FeeRec)}}
	}}
}

func regAct(kind, owner string, ident []string, maxEnts int) Action {
	mod := map[string]string{model.WrkReg: "wreg", model.BcnReg: "breg"}[kind]
	return Action{Name: fmt.Sprintf("%s(%s,%s)", mod, owner, ident[0]), Dt: time.Millisecond,
		Txs: func(m *model.State) []model.Tx {
			f := m.Wrk.P.FeeReg
			if kind == model.BcnReg {
				f = m.Bcn.P.FeeReg
			}
			return []model.Tx{{Msgs: []model.Msg{{Kind: kind, From: owner, S: ident}}, Fee: fee(f)}}
		},
		Enabled: func(m *model.State, _ map[string]int) bool {
			if kind == model.WrkReg {
				return len(m.Wrk.Ents) < maxEnts
			}
			return len(m.Bcn.Ents) < maxEnts
		}}
}

// upper: the same letter with every address in its messages spelled in upper case.
func upper(a Action) Action {
	txs := a.Txs
	a.Name += "[upper-case addresses]"
	a.Txs = func(m *model.State) []model.Tx {
		out := txs(m)
		for i := range out {
			for j := range out[i].Msgs {
				out[i].Msgs[j].Up = true
			}
		}
		return out
	}
	return a
}

func purAct(name, kind, signer string, id, n uint64, nestedBy string) Action {
	return Action{Name: name, Dt: time.Millisecond, Txs: func(m *model.State) []model.Tx {
		per := m.Wrk.P.FeePur
		if kind == model.BcnPur {
			per = m.Bcn.P.FeePur
		}
		msg := model.Msg{Kind: kind, From: signer, ID: id, N: n}
		f := per * n // wraps for huge n; DeliverTx does not check the amount
		if n > 1000 {
			f = per
		}
		if nestedBy != "" {
			return []model.Tx{{Msgs: []model.Msg{{Kind: model.AuthzExec, From: nestedBy, Inner: []model.Msg{msg}}}}}
		}
		return []model.Tx{{Msgs: []model.Msg{msg}, Fee: fee(f)}}
	}}
}

func anchorGov(name, kind string, p model.AnchorParams) Action {
	return govOnce(name, kind, p)
}

func anchorScenario(o anchorOpts) *Scenario {
	g := BaseGenesis(mc.AcctSpec{Name: "W1", Coins: Rich()}, mc.AcctSpec{Name: "W2", Coins: Rich()}, mc.AcctSpec{Name: "O", Coins: Rich()})
	s := &Scenario{Name: o.name, Genesis: g, KeyTimeNs: false}
	add := func(a ...Action) { s.Actions = append(s.Actions, a...) }
	wIdent := func(k string) []string { return []string{"chain-" + k, "Chain " + k, "0xgenesis" + k, "geth"} }
	bIdent := func(k string) []string { return []string{"beacon-" + k, "Beacon " + k} }
	maxEnts := 2
	if o.identity {
		maxEnts = 3
	}
	add(regAct(model.WrkReg, "W1", wIdent("a"), maxEnts), regAct(model.WrkReg, "W2", wIdent("b"), maxEnts),
		regAct(model.BcnReg, "W1", bIdent("a"), maxEnts), regAct(model.BcnReg, "W2", bIdent("b"), maxEnts))
	next := func(l uint64) uint64 { return l + 1 }
	add(wrecAct("wrec(W1,#1,next)", "W1", 1, next), brecAct("brec(W1,#1)", "W1", 1))
	if o.heights {
		add(
			wrecAct("wrec(W1,#1,last+3)", "W1", 1, func(l uint64) uint64 { return l + 3 }),
			wrecAct("wrec(W1,#1,last)", "W1", 1, func(l uint64) uint64 {
				if l == 0 {
					return 1
				}
				return l
			}),
			wrecAct("wrec(W1,#1,1)", "W1", 1, func(uint64) uint64 { return 1 }),
			wrecAct("wrec(W1,#1,last-1)", "W1", 1, func(l uint64) uint64 {
				if l < 2 {
					return 1
				}
				return l - 1
			}),
			wrecAct("wrec(W1,#1,maxuint64)", "W1", 1, func(uint64) uint64 { return maxU64 }),
			// hashes at and beyond the size limit (66 characters)
			Action{Name: "wrec(W1,#1,next,hashes66)", Dt: time.Millisecond, Txs: func(m *model.State) []model.Tx {
				h66 := "0x" + strings.Repeat("a", 64)
				last := uint64(0)
				if e, ok := m.Wrk.Ents[1]; ok {
					last = e.Last
				}
				return []model.Tx{{Msgs: []model.Msg{{Kind: model.WrkRec, From: "W1", ID: 1, H: last + 1, S: []string{h66, h66, h66, h66, h66}}}, Fee: fee(m.Wrk.P.FeeRec)}}
			}},
			Action{Name: "wrec(W1,#1,next,hash67)", Dt: time.Millisecond, Txs: func(m *model.State) []model.Tx {
				last := uint64(0)
				if e, ok := m.Wrk.Ents[1]; ok {
					last = e.Last
				}
				return []model.Tx{{Msgs: []model.Msg{{Kind: model.WrkRec, From: "W1", ID: 1, H: last + 1, S: []string{"0xb", "", "", "0x" + strings.Repeat("a", 65), ""}}}, Fee: fee(m.Wrk.P.FeeRec)}}
			}},
			Action{Name: "brec(W1,#1,hash66)", Dt: time.Millisecond, Txs: func(m *model.State) []model.Tx {
				return []model.Tx{{Msgs: []model.Msg{{Kind: model.BcnRec, From: "W1", ID: 1, S: []string{"0x" + strings.Repeat("b", 64)}, T: 1_600_000_000}}, Fee: fee(m.Bcn.P.FeeRec)}}
			}},
			Action{Name: "brec(W1,#1,hash67)", Dt: time.Millisecond, Txs: func(m *model.State) []model.Tx {
				return []model.Tx{{Msgs: []model.Msg{{Kind: model.BcnRec, From: "W1", ID: 1, S: []string{"0x" + strings.Repeat("b", 65)}, T: 1_600_000_000}}, Fee: fee(m.Bcn.P.FeeRec)}}
			}},
			wrecAct("wrec(W2,#1,next)", "W2", 1, next), // non-owner
			wrecAct("wrec(W2,#2,next)", "W2", 2, next),
			brecAct("brec(W2,#1)", "W2", 1), // non-owner
			brecAct("brec(W2,#2)", "W2", 2),
			purAct("wpur(W1,#1,1)", model.WrkPur, "W1", 1, 1, ""),
			purAct("bpur(W1,#1,1)", model.BcnPur, "W1", 1, 1, ""),
		)
	}
	if o.heights {
		// the maximum lowered by governance below a limit the chain already holds: records are kept up to the
		// chain's own limit all the same
		add(anchorGov("gov(wrk:default=1,max=2)", model.WrkParams, model.AnchorParams{FeeReg: 24, FeeRec: 2, FeePur: 3, Denom: mc.Nund, Default: 1, Max: 2}))
	}
	if o.purchases || o.heights {
		// three records in one block (retention effects that need several records are one step away)
		add(
			Action{Name: "wrec(W1,#1,next)x3", Dt: time.Millisecond, Txs: func(m *model.State) []model.Tx {
				last := uint64(0)
				if e, ok := m.Wrk.Ents[1]; ok {
					last = e.Last
				}
				var txs []model.Tx
				for i := uint64(1); i <= 3; i++ {
					txs = append(txs, model.Tx{Msgs: []model.Msg{{Kind: model.WrkRec, From: "W1", ID: 1, H: last + i, S: recHashes(m, 1, last+i)}}, Fee: fee(m.Wrk.P.FeeRec)})
				}
				return txs
			}},
			Action{Name: "wrec(W2,#2,next)x3", Dt: time.Millisecond, Txs: func(m *model.State) []model.Tx {
				last := uint64(0)
				if e, ok := m.Wrk.Ents[2]; ok {
					last = e.Last
				}
				var txs []model.Tx
				for i := uint64(1); i <= 3; i++ {
					txs = append(txs, model.Tx{Msgs: []model.Msg{{Kind: model.WrkRec, From: "W2", ID: 2, H: last + i, S: recHashes(m, 2, last+i)}}, Fee: fee(m.Wrk.P.FeeRec)})
				}
				return txs
			}},
			Action{Name: "brec(W1,#1)x3", Dt: time.Millisecond, Txs: func(m *model.State) []model.Tx {
				n := 0
				if e, ok := m.Bcn.Ents[1]; ok {
					n = len(e.Ever)
				}
				var txs []model.Tx
				for i := 0; i < 3; i++ {
					txs = append(txs, model.Tx{Msgs: []model.Msg{{Kind: model.BcnRec, From: "W1", ID: 1, S: []string{fmt.Sprintf("0xts-1-%d", n+i)}, T: uint64(1_600_000_000 + n + i)}}, Fee: fee(m.Bcn.P.FeeRec)})
				}
				return txs
			}},
		)
	}
	if o.purchases {
		// the in-place software upgrade moves limits and fees from x/params into the module stores
		add(upgradeAct())
		add(
			purAct("wpur(W1,#1,0)", model.WrkPur, "W1", 1, 0, ""),
			purAct("wpur(W1,#1,1)", model.WrkPur, "W1", 1, 1, ""),
			purAct("wpur(W1,#1,2)", model.WrkPur, "W1", 1, 2, ""),
			purAct("wpur(W1,#1,3)", model.WrkPur, "W1", 1, 3, ""),
			purAct("wpur(W2,#1,1)", model.WrkPur, "W2", 1, 1, ""), // non-owner
			purAct("bpur(W1,#1,2)", model.BcnPur, "W1", 1, 2, ""),
			purAct("bpur(W1,#1,3)", model.BcnPur, "W1", 1, 3, ""),
			Action{Name: "grant(W1->O,wpur+bpur)", Dt: time.Millisecond, Txs: func(*model.State) []model.Tx {
				return []model.Tx{{Msgs: []model.Msg{{Kind: model.AuthzGrant, From: "W1", To: "O", URL: model.WrkPur}, {Kind: model.AuthzGrant, From: "W1", To: "O", URL: model.BcnPur}}}}
			}, Enabled: func(m *model.State, _ map[string]int) bool { return !m.Grants["W1|O|"+model.WrkPur] }},
			purAct("exec(O,wpur(W1,#1,1))", model.WrkPur, "W1", 1, 1, "O"),
			purAct("exec(O,bpur(W1,#1,1))", model.BcnPur, "W1", 1, 1, "O"),
			// purchases that never happen: one only simulated, one rolled back with its transaction
			Action{Name: "sim(wpur(W1,#1,2);bpur(W1,#1,2))", Dt: time.Millisecond, Sim: func(m *model.State) []model.Tx {
				return []model.Tx{{Msgs: []model.Msg{{Kind: model.WrkPur, From: "W1", ID: 1, N: 2}}, Fee: fee(2 * m.Wrk.P.FeePur)}, {Msgs: []model.Msg{{Kind: model.BcnPur, From: "W1", ID: 1, N: 2}}, Fee: fee(2 * m.Bcn.P.FeePur)}}
			}},
			Action{Name: "wpur(W1,#1,1)+bpur(W1,#1,1)+fail", Dt: time.Millisecond, Txs: func(m *model.State) []model.Tx {
				return []model.Tx{{Msgs: []model.Msg{{Kind: model.WrkPur, From: "W1", ID: 1, N: 1}, {Kind: model.BcnPur, From: "W1", ID: 1, N: 1}, {Kind: model.BankSend, From: "W1", To: model.ModStr, Den: mc.Nund, Amt: "1"}}, Fee: fee(m.Wrk.P.FeePur + m.Bcn.P.FeePur)}}
			}},
			purAct("exec(O,wpur(W1,#1,2^64-1))", model.WrkPur, "W1", 1, maxU64, "O"),
			purAct("exec(O,wpur(W1,#1,2^64-2))", model.WrkPur, "W1", 1, maxU64-1, "O"),
			purAct("exec(O,bpur(W1,#1,2^64-1))", model.BcnPur, "W1", 1, maxU64, "O"),
			purAct("exec(O,wpur(W1,#1,2^63))", model.WrkPur, "W1", 1, 1<<63, "O"),
			Action{Name: "wpur+wpur(W1,#1,1+2)", Dt: time.Millisecond, Txs: func(m *model.State) []model.Tx {
				return []model.Tx{{Msgs: []model.Msg{{Kind: model.WrkPur, From: "W1", ID: 1, N: 1}, {Kind: model.WrkPur, From: "W1", ID: 1, N: 2}}, Fee: fee(3 * m.Wrk.P.FeePur)}}
			}},
			anchorGov("gov(wrk:default=3,max=6)", model.WrkParams, model.AnchorParams{FeeReg: 24, FeeRec: 2, FeePur: 3, Denom: mc.Nund, Default: 3, Max: 6}),
			anchorGov("gov(wrk:default=1,max=2)", model.WrkParams, model.AnchorParams{FeeReg: 24, FeeRec: 2, FeePur: 3, Denom: mc.Nund, Default: 1, Max: 2}),
			anchorGov("gov(bcn:default=1,max=3)", model.BcnParams, model.AnchorParams{FeeReg: 31, FeeRec: 5, FeePur: 7, Denom: mc.Nund, Default: 1, Max: 3}),
		)
	}
	if o.identity {
		long := func(n int) string {
			b := make([]byte, n)
			for i := range b {
				b[i] = 'x'
			}
			return string(b)
		}
		add(
			regAct(model.WrkReg, "O", []string{long(64), long(128), "0x" + long(64), "cosmos"}, maxEnts),
			regAct(model.WrkReg, "O", []string{long(65), "n", "0xg", "t"}, maxEnts),
			regAct(model.WrkReg, "O", []string{"m", long(129), "0xg", "t"}, maxEnts),
			regAct(model.WrkReg, "O", []string{"m", "n", long(67), "t"}, maxEnts),
			regAct(model.WrkReg, "O", []string{"", "n", "0xg", "t"}, maxEnts),
			// the owner spelled in upper case (a legal bech32 spelling): the stored owner is the signer's address all the same
			upper(regAct(model.WrkReg, "W2", wIdent("u"), maxEnts)), upper(regAct(model.BcnReg, "W2", bIdent("u"), maxEnts)),
			regAct(model.WrkReg, "O", []string{"m-only", "", "", ""}, maxEnts), // every optional field left empty, the base type too
			// limits are in bytes: 64 two-byte characters are 128 bytes (at the limit of the name), 128 are 256 (beyond it)
			regAct(model.WrkReg, "O", []string{"m-utf8", strings.Repeat("é", 64), "0xg", "t"}, maxEnts),
			regAct(model.WrkReg, "O", []string{"m-utf8x", strings.Repeat("é", 128), "0xg", "t"}, maxEnts),
			regAct(model.WrkReg, "O", []string{strings.Repeat("é", 33), "n", "0xg", "t"}, maxEnts),
			regAct(model.BcnReg, "O", []string{"b-utf8x", strings.Repeat("é", 65)}, maxEnts),
			regAct(model.BcnReg, "O", []string{"b-only", ""}, maxEnts),
			regAct(model.BcnReg, "O", []string{long(64), long(128)}, maxEnts),
			regAct(model.BcnReg, "O", []string{long(65), "n"}, maxEnts),
			regAct(model.BcnReg, "O", []string{"", "n"}, maxEnts),
		)
		// a registration and a record on the identifier it is about to get, in a transaction whose last
		// message fails: nothing of it may survive, the identifier goes to the next registrant
		failSend := model.Msg{Kind: model.BankSend, From: "W1", To: model.ModStr, Den: mc.Nund, Amt: "1"}
		add(
			Action{Name: "breg+brec(next)+fail(W1)", Dt: time.Millisecond, Txs: func(m *model.State) []model.Tx {
				return []model.Tx{{Msgs: []model.Msg{{Kind: model.BcnReg, From: "W1", S: bIdent("x")}, {Kind: model.BcnRec, From: "W1", ID: m.Bcn.NextID, S: []string{"0xrolled-back"}, T: 1_600_000_000}, failSend}, Fee: fee(m.Bcn.P.FeeReg + m.Bcn.P.FeeRec)}}
			}, Enabled: func(m *model.State, _ map[string]int) bool { return len(m.Bcn.Ents) < maxEnts }},
			Action{Name: "wreg+wrec(next)+fail(W1)", Dt: time.Millisecond, Txs: func(m *model.State) []model.Tx {
				return []model.Tx{{Msgs: []model.Msg{{Kind: model.WrkReg, From: "W1", S: wIdent("x")}, {Kind: model.WrkRec, From: "W1", ID: m.Wrk.NextID, H: 1, S: []string{"0xrolled-back", "", "", "", ""}}, failSend}, Fee: fee(m.Wrk.P.FeeReg + m.Wrk.P.FeeRec)}}
			}, Enabled: func(m *model.State, _ map[string]int) bool { return len(m.Wrk.Ents) < maxEnts }},
		)
		add(Action{Name: "sim(breg+brec(next);wreg+wrec(next))(W2)", Dt: time.Millisecond, Sim: func(m *model.State) []model.Tx {
			return []model.Tx{
				{Msgs: []model.Msg{{Kind: model.BcnReg, From: "W2", S: bIdent("s")}, {Kind: model.BcnRec, From: "W2", ID: m.Bcn.NextID, S: []string{"0xsim"}, T: 1_600_000_000}}, Fee: fee(m.Bcn.P.FeeReg + m.Bcn.P.FeeRec)},
				{Msgs: []model.Msg{{Kind: model.WrkReg, From: "W2", S: wIdent("s")}, {Kind: model.WrkRec, From: "W2", ID: m.Wrk.NextID, H: 1, S: []string{"0xsim", "", "", "", ""}}}, Fee: fee(m.Wrk.P.FeeReg + m.Wrk.P.FeeRec)}}
		}})
		for _, sg := range []string{"W1", "W2", "O"} {
			for _, id := range []uint64{1, 2, 3, 7} {
				add(wrecAct(fmt.Sprintf("wrec(%s,#%d,next)", sg, id), sg, id, next))
				if id <= 2 || id == 7 {
					add(purAct(fmt.Sprintf("wpur(%s,#%d,1)", sg, id), model.WrkPur, sg, id, 1, ""),
						brecAct(fmt.Sprintf("brec(%s,#%d)", sg, id), sg, id),
						purAct(fmt.Sprintf("bpur(%s,#%d,1)", sg, id), model.BcnPur, sg, id, 1, ""))
				}
			}
		}
	}
	if o.purchases {
		s.Prefix = []string{"grant(W1->O,wpur+bpur)"} // nested purchases are one step closer to the root
	}
	// drop duplicate action names (options overlap)
	seen := map[string]bool{}
	var uniq []Action
	for _, a := range s.Actions {
		if !seen[a.Name] {
			seen[a.Name] = true
			uniq = append(uniq, a)
		}
	}
	s.Actions = uniq
	s.Actions = append(s.Actions, Action{Name: "wait(1s)", Dt: time.Second, Enabled: func(m *model.State, _ map[string]int) bool { return elapsed(m) < 5 }})
	return s
}

// anchorSameBlock: records and purchases of one chain and one beacon that meet in the same block.
func anchorSameBlock() *Scenario {
	g := BaseGenesis(mc.AcctSpec{Name: "W1", Coins: Rich()}, mc.AcctSpec{Name: "O", Coins: Rich()})
	s := &Scenario{Name: "anchor-same-block", Genesis: g, KeyTimeNs: false}
	next := func(l uint64) uint64 { return l + 1 }
	w, b := regAct(model.WrkReg, "W1", []string{"chain-a", "Chain a", "0xgena", "geth"}, 1), regAct(model.BcnReg, "W1", []string{"beacon-a", "Beacon a"}, 1)
	w.PrefixOnly, b.PrefixOnly = true, true
	core := []Action{
		wrecAct("wrec(W1,#1,next)", "W1", 1, next), purAct("wpur(W1,#1,1)", model.WrkPur, "W1", 1, 1, ""), purAct("wpur(W1,#1,2)", model.WrkPur, "W1", 1, 2, ""),
		brecAct("brec(W1,#1)", "W1", 1), purAct("bpur(W1,#1,2)", model.BcnPur, "W1", 1, 2, ""),
	}
	s.Actions = append(s.Actions, w, b)
	s.Prefix = []string{w.Name, b.Name}
	s.Actions = append(s.Actions, core...)
	s.Actions = append(s.Actions, pairLetters(core...)...)
	s.Actions = append(s.Actions, anchorGov("gov(wrk:default=1,max=2)", model.WrkParams, model.AnchorParams{FeeReg: 24, FeeRec: 2, FeePur: 3, Denom: mc.Nund, Default: 1, Max: 2}),
		Action{Name: "wait(1s)", Dt: time.Second, Enabled: func(m *model.State, _ map[string]int) bool { return elapsed(m) < 5 }})
	return s
}

func init() {
	Checks["C07"] = func() *Check {
		return &Check{ID: "C07",
			Runs: []Run{{S: anchorScenario(anchorOpts{name: "anchor-records", heights: true}), Opt: map[Tier]Options{
				Quick:    {Depth: 4, Budget: 150 * time.Second, ReplayEvery: 16},
				Thorough: {Depth: 8, Budget: 15 * time.Minute, ReplayEvery: 32, MaxStates: 500000},
			}}},
			Owns: ownsAny("anch.record", "anch.missing", "tx.accept_unexpected:wrk.rec:invalid_field", "tx.accept_unexpected:bcn.rec:invalid_field", "tx.accept_unexpected:wrk.rec:height_not_new", "tx.accept_unexpected:wrk.rec:not_owner", "tx.accept_unexpected:bcn.rec:not_owner", "tx.nonatomic"),
		}
	}
	Checks["C08"] = func() *Check {
		return &Check{ID: "C08",
			Runs: []Run{{S: anchorScenario(anchorOpts{name: "anchor-retention", purchases: true}), Opt: map[Tier]Options{
				Quick:    {Depth: 4, Budget: 150 * time.Second, ReplayEvery: 16},
				Thorough: {Depth: 8, Budget: 15 * time.Minute, ReplayEvery: 32, MaxStates: 500000},
			}}, {S: anchorSameBlock(), Opt: map[Tier]Options{
				Quick:    {Depth: 3, Budget: 60 * time.Second, ReplayEvery: 16},
				Thorough: {Depth: 5, Budget: 6 * time.Minute, ReplayEvery: 32, MaxStates: 300000},
			}}},
			Owns: ownsAny("anch.missing", "anch.unpruned", "anch.meta", "anch.limit", "anch.storage", "tx.accept_unexpected:wrk.pur", "tx.accept_unexpected:bcn.pur"),
		}
	}
	Checks["C09"] = func() *Check {
		return &Check{ID: "C09",
			Runs: []Run{{S: anchorScenario(anchorOpts{name: "anchor-identity", identity: true}), Opt: map[Tier]Options{
				Quick:    {Depth: 3, Budget: 150 * time.Second, ReplayEvery: 16},
				Thorough: {Depth: 6, Budget: 15 * time.Minute, ReplayEvery: 32, MaxStates: 500000},
			}}},
			Owns: ownsAny("anch.identity", "tx.accept_unexpected:wrk.reg", "tx.accept_unexpected:bcn.reg", "tx.accept_unexpected:wrk.rec:not_owner", "tx.accept_unexpected:wrk.rec:no_such_entity", "tx.accept_unexpected:bcn.rec:not_owner", "tx.accept_unexpected:bcn.rec:no_such_entity",
				"tx.accept_unexpected:wrk.pur:not_owner", "tx.accept_unexpected:wrk.pur:no_such_entity", "tx.accept_unexpected:bcn.pur:not_owner", "tx.accept_unexpected:bcn.pur:no_such_entity", "tx.nonatomic"),
		}
	}
}
