package scen

import (
	"math/big"
	"time"

	"verif/mc"
	"verif/model"
)

func pow2(n uint) *big.Int { return new(big.Int).Lsh(big.NewInt(1), n) }

func jump(name string, f func(m *model.State) (sec int64, nsec int64)) Action {
	return Action{Name: name, NextTime: func(m *model.State) time.Time {
		s, n := f(m)
		return time.Unix(s, n).UTC()
	}}
}

// nowParts splits the model time.
func nowParts(m *model.State) (int64, int64) {
	q, r := new(big.Int).DivMod(m.Now, big.NewInt(1_000_000_000), new(big.Int))
	return q.Int64(), r.Int64()
}

func zeroTimeOf(m *model.State, key string) (int64, int64, bool) {
	st, ok := m.Str[key]
	if !ok {
		return 0, 0, false
	}
	q, r := new(big.Int).QuoRem(st.Z, big.NewInt(1_000_000_000), new(big.Int))
	// a block time must be representable (protobuf timestamps end with the year 9999): jumps to a zero time
	// beyond that are not letters of any alphabet
	if !q.IsInt64() || q.Int64() > maxProtoTimeS-2 {
		return 0, 0, false
	}
	return q.Int64(), r.Int64(), true
}

func c11Small() *Scenario {
	s := &Scenario{Name: "timing-small", Genesis: streamGenesis(), KeyTimeNs: true, AfterTx: streamTiming}
	s.Actions = streamActions(time.Second)
	s.Actions = append(s.Actions, timeSteps(800, 700*time.Millisecond, 999_999_999*time.Nanosecond, 30*time.Second, 61*time.Second, 700*time.Second)...)
	s.Actions = append(s.Actions, aroundZero()...)
	// the schedule does not depend on the validator fee: also at its boundaries
	s.Actions = append(s.Actions, govOnce("gov(fee=1)", model.StrParams, "1.000000000000000000"), govOnce("gov(fee=0)", model.StrParams, "0.000000000000000000"))
	// block-time gap 0 s: two operations on one stream in the same block
	two := func(name string, a, b model.Msg) Action {
		return Action{Name: name, Dt: 700 * time.Millisecond, Txs: func(*model.State) []model.Tx { return []model.Tx{{Msgs: []model.Msg{a}}, {Msgs: []model.Msg{b}}} }}
	}
	claim := model.Msg{Kind: model.StrClaim, From: "R1", To: "A"}
	s.Actions = append(s.Actions,
		two("claim(R1<-A);claim(R1<-A)", claim, claim),
		two("claim(R1<-A);update(A->R1,@3)", claim, model.Msg{Kind: model.StrUpdate, From: "A", To: "R1", Rate: 3}),
		two("update(A->R1,@3);claim(R1<-A)", model.Msg{Kind: model.StrUpdate, From: "A", To: "R1", Rate: 3}, claim),
		two("topup(A->R1,65nund);claim(R1<-A)", model.Msg{Kind: model.StrTopUp, From: "A", To: "R1", Den: mc.Nund, Amt: "65"}, claim),
	)
	return s
}

const y292 = int64(292*365*24*3600 + 71*24*3600) // ~292.2 years: just beyond the range of time.Duration (9 223 372 036 s)

func c11Extreme() *Scenario {
	g := BaseGenesis(
		mc.AcctSpec{Name: "A", Coins: Rich()},
		mc.AcctSpec{Name: "B", Coins: Coins(1000, 0).Add(coin(mc.Tok, pow2(70)))},
		mc.AcctSpec{Name: "R1", Coins: Coins(1000, 0)},
	)
	s := &Scenario{Name: "timing-extreme", Genesis: g, KeyTimeNs: true, AfterTx: streamTiming}
	d10 := "10000000000"
	op := func(name string, m model.Msg) Action { return Action{Name: name, Dt: time.Second, Txs: tx1(m)} }
	exists := func(key string) func(*model.State, map[string]int) bool {
		return func(m *model.State, _ map[string]int) bool { _, ok := m.Str[key]; return ok }
	}
	s.Actions = []Action{
		op("create(A->R1,1e10nund@1)", model.Msg{Kind: model.StrCreate, From: "A", To: "R1", Den: mc.Nund, Amt: d10, Rate: 1}),
		op("create(B->R1,2^68tok@2^62)", model.Msg{Kind: model.StrCreate, From: "B", To: "R1", Den: mc.Tok, Amt: pow2(68).String(), Rate: 1 << 62}),
		op("claim(R1<-A)", model.Msg{Kind: model.StrClaim, From: "R1", To: "A"}),
		op("claim(R1<-B)", model.Msg{Kind: model.StrClaim, From: "R1", To: "B"}),
		op("topup(A->R1,1e10nund)", model.Msg{Kind: model.StrTopUp, From: "A", To: "R1", Den: mc.Nund, Amt: d10}),
		op("update(A->R1,@7)", model.Msg{Kind: model.StrUpdate, From: "A", To: "R1", Rate: 7}),
		op("cancel(A->R1)", model.Msg{Kind: model.StrCancel, From: "A", To: "R1"}),
		{Name: "wait(4s)", Dt: 4 * time.Second},
		{Name: "wait(2^24s+0.999999999s)", Dt: (1<<24)*time.Second + 999_999_999*time.Nanosecond, Count: "long", Enabled: func(_ *model.State, aux map[string]int) bool { return aux["long"] < 2 }},
		func() Action {
			a := jump("wait(292y+)", func(m *model.State) (int64, int64) { s, n := nowParts(m); return s + y292, n })
			a.Count = "vlong"
			a.Enabled = func(_ *model.State, aux map[string]int) bool { return aux["vlong"] < 1 }
			return a
		}(),
		func() Action {
			a := jump("goto(Z(A->R1)-1s)", func(m *model.State) (int64, int64) { s, n, _ := zeroTimeOf(m, "R1|A"); return s - 1, n })
			a.Enabled = func(m *model.State, _ map[string]int) bool {
				s, _, ok := zeroTimeOf(m, "R1|A")
				return ok && s-1 > m.NowS()
			}
			return a
		}(),
		func() Action {
			a := jump("goto(Z(A->R1))", func(m *model.State) (int64, int64) { s, n, _ := zeroTimeOf(m, "R1|A"); return s, n })
			a.Enabled = func(m *model.State, _ map[string]int) bool {
				s, _, ok := zeroTimeOf(m, "R1|A")
				return ok && s > m.NowS()
			}
			return a
		}(),
	}
	_ = exists
	return s
}

func init() {
	Checks["C11"] = func() *Check {
		return &Check{
			ID: "C11",
			Runs: []Run{
				{S: c11Small(), Opt: map[Tier]Options{
					Quick:    {Depth: 4, Budget: 120 * time.Second, ReplayEvery: 16},
					Thorough: {Depth: 6, Budget: 10 * time.Minute, ReplayEvery: 8, MaxStates: 400000},
				}},
				{S: c11Extreme(), Opt: map[Tier]Options{
					Quick:    {Depth: 4, Budget: 60 * time.Second, ReplayEvery: 16},
					Thorough: {Depth: 7, Budget: 6 * time.Minute, ReplayEvery: 8, MaxStates: 300000},
				}},
				{S: streamSameBlock("timing-same-block", streamTiming), Opt: map[Tier]Options{
					Quick:    {Depth: 3, Budget: 60 * time.Second, ReplayEvery: 16},
					Thorough: {Depth: 5, Budget: 6 * time.Minute, ReplayEvery: 8, MaxStates: 300000},
				}},
			},
			Owns:        ownsAny("str.release_amount", "str.refund_amount", "str.lastoutflow", "str.zerotime", "str.sustain", "str.deposit", "tx.accept_unexpected:str.create", "tx.accept_unexpected:str.topup", "tx.accept_unexpected:str.update"),
			Extra:       c11Enum,
			Assumptions: []string{"Cosmos-SDK bank/auth semantics are the trusted substrate", "numeric domain covered on the boundary grid listed in coverage.grid, exhaustively on the grid", "a stream with zero deposit is exempt from the sustain rule (nothing can be drained)"},
		}
	}
}
