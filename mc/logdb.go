package mc

import (
	"sync"

	dbm "github.com/cometbft/cometbft-db"
)

// Op is one write of a logged batch (Del: delete).
type Op struct {
	K, V []byte
	Del  bool
}

// LogDB wraps a database and records every write as one atomic log entry (a direct Set/Delete is
// an entry of its own, a batch is one entry when it is written).
type LogDB struct {
	dbm.DB
	mu      sync.Mutex
	Logging bool
	Log     [][]Op
}

func NewLogDB(inner dbm.DB) *LogDB { return &LogDB{DB: inner} }

func (l *LogDB) rec(ops []Op) {
	l.mu.Lock()
	if l.Logging {
		l.Log = append(l.Log, ops)
	}
	l.mu.Unlock()
}

func (l *LogDB) Set(k, v []byte) error { l.rec([]Op{{K: cp(k), V: cp(v)}}); return l.DB.Set(k, v) }
func (l *LogDB) SetSync(k, v []byte) error {
	l.rec([]Op{{K: cp(k), V: cp(v)}})
	return l.DB.SetSync(k, v)
}
func (l *LogDB) Delete(k []byte) error { l.rec([]Op{{K: cp(k), Del: true}}); return l.DB.Delete(k) }
func (l *LogDB) DeleteSync(k []byte) error {
	l.rec([]Op{{K: cp(k), Del: true}})
	return l.DB.DeleteSync(k)
}
func (l *LogDB) NewBatch() dbm.Batch { return &logBatch{l: l, inner: l.DB.NewBatch()} }

type logBatch struct {
	l     *LogDB
	inner dbm.Batch
	ops   []Op
}

func (b *logBatch) Set(k, v []byte) error {
	b.ops = append(b.ops, Op{K: cp(k), V: cp(v)})
	return b.inner.Set(k, v)
}
func (b *logBatch) Delete(k []byte) error {
	b.ops = append(b.ops, Op{K: cp(k), Del: true})
	return b.inner.Delete(k)
}
func (b *logBatch) Write() error     { b.l.rec(b.ops); b.ops = nil; return b.inner.Write() }
func (b *logBatch) WriteSync() error { b.l.rec(b.ops); b.ops = nil; return b.inner.WriteSync() }
func (b *logBatch) Close() error     { return b.inner.Close() }

// Materialize returns the full key/value content of a snapshot (base + difference).
func (s *Snap) Materialize() map[string][]byte {
	out := map[string][]byte{}
	if s.base != nil {
		for k, v := range s.base.m {
			out[k] = v
		}
	}
	for _, k := range s.tomb {
		delete(out, string(k))
	}
	s.each(func(k, v []byte) { out[string(k)] = cp(v) })
	return out
}
