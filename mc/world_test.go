package mc

import (
	"bytes"
	"testing"
	"time"

	sdk "github.com/cosmos/cosmos-sdk/types"
	streamtypes "github.com/unification-com/mainchain/x/stream/types"
)

func testSpec() GenesisSpec {
	rich := sdk.NewCoins(sdk.NewInt64Coin(Nund, 1_000_000_000_000), sdk.NewInt64Coin(Tok, 1_000_000))
	return GenesisSpec{
		Time:      time.Unix(1_700_000_000, 0).UTC(),
		Accounts:  []AcctSpec{{Name: "V", Coins: rich}, {Name: "A", Coins: rich}, {Name: "R1"}, {Name: "S1", Coins: rich}},
		EntSigner: []string{"S1"}, MinAccept: 1, Limit: 100, StartPO: 1,
		Wrk:       AnchorParams{24, 2, 3, Nund, 2, 4, 1},
		Beacon:    AnchorParams{31, 5, 7, Nund, 2, 4, 1},
		StreamFee: sdk.NewDecWithPrec(1, 2),
	}
}

func TestSmoke(t *testing.T) {
	t0 := time.Now()
	w, err := NewWorld(testSpec())
	if err != nil {
		t.Fatal(err)
	}
	t.Log("new world", time.Since(t0))
	s0 := w.Snapshot()
	msg := &streamtypes.MsgCreateStream{Sender: w.Bech("A"), Receiver: w.Bech("R1"), Deposit: sdk.NewInt64Coin(Nund, 600), FlowRate: 1}
	t1 := time.Now()
	br := w.RunBlockFn(time.Second, []TxFn{func(w *World) []byte { return w.MustSign(TxSpec{Msgs: []sdk.Msg{msg}}) }}, nil, nil)
	t.Log("block", time.Since(t1), br.Txs[0].Code, br.Txs[0].Log)
	if br.Txs[0].Code != 0 {
		t.Fatal("create failed")
	}
	h1 := br.AppHash
	var resp streamtypes.QueryStreamByReceiverSenderResponse
	if err := w.Query("/mainchain.stream.v1.Query/StreamByReceiverSender", &streamtypes.QueryStreamByReceiverSenderRequest{ReceiverAddr: w.Bech("R1"), SenderAddr: w.Bech("A")}, &resp); err != nil {
		t.Fatal(err)
	}
	t.Log(resp.Stream)
	t2 := time.Now()
	w.Restore(s0)
	t.Log("restore", time.Since(t2), s0.N)
	br2 := w.RunBlockFn(time.Second, []TxFn{func(w *World) []byte { return w.MustSign(TxSpec{Msgs: []sdk.Msg{msg}}) }}, nil, nil)
	if !bytes.Equal(br2.AppHash, h1) {
		t.Fatalf("hash differs after restore %x %x", br2.AppHash, h1)
	}
	// fresh world
	w2, _ := NewWorld(testSpec())
	br3 := w2.RunBlockFn(time.Second, []TxFn{func(w *World) []byte { return w.MustSign(TxSpec{Msgs: []sdk.Msg{msg}}) }}, nil, nil)
	if !bytes.Equal(br3.AppHash, h1) {
		t.Fatalf("hash differs on fresh world")
	}
}
