package mc

import (
	"testing"
	"time"
)

func TestDBGrowth(t *testing.T) {
	w, err := NewWorld(testSpec())
	if err != nil {
		t.Fatal(err)
	}
	for i := 0; i < 25; i++ {
		kvs := DumpDB(w.DB)
		n := 0
		for _, kv := range kvs {
			n += len(kv.K) + len(kv.V)
		}
		t.Logf("height %d: %d kvs, %d bytes", w.Height, len(kvs), n)
		w.RunBlock(time.Second, nil)
	}
}
