// Package mc drives the real und application (app.App) as the transition function of an
// explicit-state model checker: deterministic genesis, real signed transactions, real ABCI
// blocks, snapshot/restore of the backing MemDB.
package mc

import (
	"bytes"
	"crypto/sha256"
	"encoding/json"
	"fmt"
	"sort"
	"strconv"
	"strings"
	"sync"
	"time"

	dbm "github.com/cometbft/cometbft-db"
	abci "github.com/cometbft/cometbft/abci/types"
	"github.com/cometbft/cometbft/libs/log"
	tmproto "github.com/cometbft/cometbft/proto/tendermint/types"
	tmtypes "github.com/cometbft/cometbft/types"
	"github.com/cosmos/cosmos-sdk/baseapp"
	"github.com/cosmos/cosmos-sdk/client/flags"
	clienttx "github.com/cosmos/cosmos-sdk/client/tx"
	codectypes "github.com/cosmos/cosmos-sdk/codec/types"
	cryptocodec "github.com/cosmos/cosmos-sdk/crypto/codec"
	"github.com/cosmos/cosmos-sdk/crypto/keys/ed25519"
	"github.com/cosmos/cosmos-sdk/crypto/keys/secp256k1"
	cryptotypes "github.com/cosmos/cosmos-sdk/crypto/types"
	"github.com/cosmos/cosmos-sdk/server"
	simtestutil "github.com/cosmos/cosmos-sdk/testutil/sims"
	sdk "github.com/cosmos/cosmos-sdk/types"
	"github.com/cosmos/cosmos-sdk/types/tx/signing"
	authsigning "github.com/cosmos/cosmos-sdk/x/auth/signing"
	authtypes "github.com/cosmos/cosmos-sdk/x/auth/types"
	vestingtypes "github.com/cosmos/cosmos-sdk/x/auth/vesting/types"
	banktypes "github.com/cosmos/cosmos-sdk/x/bank/types"
	"github.com/cosmos/cosmos-sdk/x/crisis"
	crisistypes "github.com/cosmos/cosmos-sdk/x/crisis/types"
	govtypes "github.com/cosmos/cosmos-sdk/x/gov/types"
	govv1 "github.com/cosmos/cosmos-sdk/x/gov/types/v1"
	stakingtypes "github.com/cosmos/cosmos-sdk/x/staking/types"
	"github.com/cosmos/gogoproto/proto"

	"github.com/unification-com/mainchain/app"
	beacontypes "github.com/unification-com/mainchain/x/beacon/types"
	enttypes "github.com/unification-com/mainchain/x/enterprise/types"
	streamtypes "github.com/unification-com/mainchain/x/stream/types"
	wrkchaintypes "github.com/unification-com/mainchain/x/wrkchain/types"
)

const (
	ChainID = "verif-1"
	Nund    = "nund"
	Tok     = "tok"
	GasLim  = 20_000_000
)

var cfgOnce sync.Once

func initConfig() { cfgOnce.Do(func() { app.SetConfig() }) }

// Acct is a named deterministic account.
type Acct struct {
	Name string
	Priv cryptotypes.PrivKey
	Addr sdk.AccAddress
}

func (a *Acct) Bech() string { return a.Addr.String() }

// MkAcct derives a key from the account name; identical across runs and processes.
func MkAcct(name string) *Acct {
	initConfig()
	p := secp256k1.GenPrivKeyFromSecret([]byte("verif/" + name))
	// "L<nn>:<x>" names an address of nn bytes (module-derived / group-policy / interchain accounts have
	// 32): nobody holds a key for it, it can only be named in messages
	if len(name) > 4 && name[0] == 'L' && name[3] == ':' {
		if n, err := strconv.Atoi(name[1:3]); err == nil && n > 0 {
			h := sha256.Sum256([]byte("verif/" + name))
			addr := make([]byte, n)
			for i := range addr {
				addr[i] = h[i%32] ^ byte(i/32)
			}
			return &Acct{Name: name, Priv: p, Addr: sdk.AccAddress(addr)}
		}
	}
	return &Acct{Name: name, Priv: p, Addr: sdk.AccAddress(p.PubKey().Address())}
}

type AcctKind int

const (
	Base AcctKind = iota
	Delayed
	Continuous
	PermLocked
)

type AcctSpec struct {
	Name    string
	Kind    AcctKind
	Coins   sdk.Coins
	Vesting sdk.Coins // original vesting (subset of Coins) for vesting kinds
	VestEnd int64     // unix end time for Delayed/Continuous (start = genesis time)
}

type AnchorParams struct {
	FeeReg, FeeRec, FeePur uint64
	Denom                  string
	Default, Max           uint64
	StartID                uint64
}

type GenesisSpec struct {
	Time      time.Time
	Accounts  []AcctSpec
	EntSigner []string // account names
	MinAccept uint64
	Limit     uint64
	Whitelist []string
	StartPO   uint64
	Wrk       AnchorParams
	Beacon    AnchorParams
	StreamFee sdk.Dec
	// SkipGenesisInvariants lets a scenario switch off the crisis genesis assertion
	SkipGenesisInvariants bool
}

// World is one application instance on a private MemDB.
type World struct {
	App    *app.App
	DB     dbm.DB
	Spec   GenesisSpec
	Accts  map[string]*Acct
	ByAddr map[string]string // bech32 -> name
	Height int64
	Time   time.Time
	opts   []func(*baseapp.BaseApp)
	inBlk  bool
	hdr    tmproto.Header
	ValKey cryptotypes.PrivKey
	qctx   *sdk.Context // cached context on the last committed state
	base   *BaseSnap
	// Poisoned: a panic escaped BeginBlock/EndBlock/Commit; baseapp keeps its half-built deliver
	// state, so this instance must not be reused (not even after Restore)
	Poisoned bool
	// BlockTxs: raw transactions delivered in the block being / last executed
	BlockTxs [][]byte
}

func appOptions(skipInv bool) simtestutil.AppOptionsMap {
	o := make(simtestutil.AppOptionsMap, 0)
	o[flags.FlagHome] = "/nonexistent-verif-home"
	o[server.FlagInvCheckPeriod] = uint(0)
	if skipInv {
		o[crisis.FlagSkipGenesisInvariants] = true
	}
	return o
}

// NewAppOn opens an application on db with the node's default options.
func NewAppOn(db dbm.DB, loadLatest bool, skipInv bool) *app.App {
	initConfig()
	return app.NewApp(log.NewNopLogger(), db, nil, loadLatest, appOptions(skipInv), baseapp.SetChainID(ChainID))
}

func (w *World) Acct(name string) *Acct {
	a, ok := w.Accts[name]
	if !ok {
		a = MkAcct(name)
		w.Accts[name] = a
		w.ByAddr[a.Bech()] = name
	}
	return a
}

func (w *World) Addr(name string) sdk.AccAddress { return w.Acct(name).Addr }
func (w *World) Bech(name string) string         { return w.Acct(name).Bech() }

// NameOf returns the scenario name of an address (or the bech32 itself).
func (w *World) NameOf(bech string) string {
	if n, ok := w.ByAddr[bech]; ok {
		return n
	}
	return bech
}

func ModAddr(name string) sdk.AccAddress { return authtypes.NewModuleAddress(name) }

// BuildGenesis builds the app state JSON for spec.
func BuildGenesis(a *app.App, spec GenesisSpec, accts func(string) *Acct) (json.RawMessage, error) {
	cdc := a.AppCodec()
	gs := a.DefaultGenesis()

	valPriv := ed25519.GenPrivKeyFromSecret([]byte("verif/validator"))
	tmPub, err := cryptocodec.ToTmPubKeyInterface(valPriv.PubKey())
	if err != nil {
		return nil, err
	}
	val := tmtypes.NewValidator(tmPub, 1)

	var genAccs []authtypes.GenesisAccount
	var balances []banktypes.Balance
	total := sdk.NewCoins()
	bondAmt := sdk.DefaultPowerReduction
	for i, as := range spec.Accounts {
		ac := accts(as.Name)
		base := authtypes.NewBaseAccount(ac.Addr, nil, uint64(i), 0)
		var ga authtypes.GenesisAccount = base
		switch as.Kind {
		case Delayed:
			ga = vestingtypes.NewDelayedVestingAccount(base, as.Vesting, as.VestEnd)
		case Continuous:
			ga = vestingtypes.NewContinuousVestingAccount(base, as.Vesting, spec.Time.Unix(), as.VestEnd)
		case PermLocked:
			ga = vestingtypes.NewPermanentLockedAccount(base, as.Vesting)
		}
		genAccs = append(genAccs, ga)
		if !as.Coins.IsZero() {
			balances = append(balances, banktypes.Balance{Address: ac.Bech(), Coins: as.Coins})
			total = total.Add(as.Coins...)
		}
	}
	gs[authtypes.ModuleName] = cdc.MustMarshalJSON(authtypes.NewGenesisState(authtypes.DefaultParams(), genAccs))

	pk, err := cryptocodec.FromTmPubKeyInterface(val.PubKey)
	if err != nil {
		return nil, err
	}
	pkAny, err := codectypes.NewAnyWithValue(pk)
	if err != nil {
		return nil, err
	}
	validator := stakingtypes.Validator{
		OperatorAddress: sdk.ValAddress(val.Address).String(), ConsensusPubkey: pkAny, Status: stakingtypes.Bonded,
		Tokens: bondAmt, DelegatorShares: sdk.OneDec(), UnbondingTime: time.Unix(0, 0).UTC(),
		Commission:        stakingtypes.NewCommission(sdk.ZeroDec(), sdk.ZeroDec(), sdk.ZeroDec()),
		MinSelfDelegation: sdk.ZeroInt(),
	}
	deleg := stakingtypes.NewDelegation(accts("V").Addr, val.Address.Bytes(), sdk.OneDec())
	sp := stakingtypes.DefaultParams()
	sp.BondDenom = Nund
	gs[stakingtypes.ModuleName] = cdc.MustMarshalJSON(stakingtypes.NewGenesisState(sp, []stakingtypes.Validator{validator}, []stakingtypes.Delegation{deleg}))
	total = total.Add(sdk.NewCoin(Nund, bondAmt))
	balances = append(balances, banktypes.Balance{Address: ModAddr(stakingtypes.BondedPoolName).String(), Coins: sdk.NewCoins(sdk.NewCoin(Nund, bondAmt))})
	gs[banktypes.ModuleName] = cdc.MustMarshalJSON(banktypes.NewGenesisState(banktypes.DefaultGenesisState().Params, balances, total, []banktypes.Metadata{}, []banktypes.SendEnabled{}))

	gg := govv1.DefaultGenesisState()
	gg.Params.MinDeposit = sdk.NewCoins(sdk.NewInt64Coin(Nund, 10))
	vp := 2 * time.Second
	gg.Params.VotingPeriod = &vp
	gs[govtypes.ModuleName] = cdc.MustMarshalJSON(gg)
	gs[crisistypes.ModuleName] = cdc.MustMarshalJSON(crisistypes.NewGenesisState(sdk.NewInt64Coin(Nund, 1000)))

	signers := ""
	for i, s := range spec.EntSigner {
		if i > 0 {
			signers += ","
		}
		signers += accts(s).Bech()
	}
	var wl []string
	for _, n := range spec.Whitelist {
		if len(n) > 4 && n[:4] == "mod:" {
			wl = append(wl, ModAddr(n[4:]).String())
		} else {
			wl = append(wl, accts(n).Bech())
		}
	}
	eg := enttypes.GenesisState{
		Params:                  enttypes.NewParams(Nund, spec.MinAccept, spec.Limit, signers),
		StartingPurchaseOrderId: spec.StartPO,
		TotalLocked:             sdk.NewInt64Coin(Nund, 0),
		TotalSpent:              sdk.NewInt64Coin(Nund, 0),
		Whitelist:               wl,
	}
	gs[enttypes.ModuleName] = cdc.MustMarshalJSON(&eg)
	wg := wrkchaintypes.NewGenesisState(wrkchaintypes.NewParams(spec.Wrk.FeeReg, spec.Wrk.FeeRec, spec.Wrk.FeePur, spec.Wrk.Denom, spec.Wrk.Default, spec.Wrk.Max), spec.Wrk.StartID, nil)
	gs[wrkchaintypes.ModuleName] = cdc.MustMarshalJSON(wg)
	bg := beacontypes.NewGenesisState(beacontypes.NewParams(spec.Beacon.FeeReg, spec.Beacon.FeeRec, spec.Beacon.FeePur, spec.Beacon.Denom, spec.Beacon.Default, spec.Beacon.Max), spec.Beacon.StartID, nil)
	gs[beacontypes.ModuleName] = cdc.MustMarshalJSON(bg)
	sg := streamtypes.NewGenesisState(nil, streamtypes.NewParams(spec.StreamFee))
	gs[streamtypes.ModuleName] = cdc.MustMarshalJSON(sg)

	return json.MarshalIndent(gs, "", " ")
}

// ConsensusParams used for every chain.
func ConsensusParams() *tmproto.ConsensusParams {
	cp := *simtestutil.DefaultConsensusParams
	blk := *cp.Block
	blk.MaxGas = -1
	cp.Block = &blk
	return &cp
}

// NewWorld builds a fresh chain from spec and commits one empty block (see DESIGN 3.1).
func NewWorld(spec GenesisSpec) (*World, error) {
	db := dbm.NewMemDB()
	return NewWorldOn(db, spec)
}

func NewWorldOn(db dbm.DB, spec GenesisSpec) (w *World, err error) {
	defer func() {
		if r := recover(); r != nil {
			err = fmt.Errorf("genesis panic: %v", r)
		}
	}()
	w = &World{DB: db, Spec: spec, Accts: map[string]*Acct{}, ByAddr: map[string]string{}}
	w.App = NewAppOn(db, true, spec.SkipGenesisInvariants)
	w.Acct("V")
	for _, as := range spec.Accounts {
		w.Acct(as.Name)
	}
	state, err := BuildGenesis(w.App, spec, w.Acct)
	if err != nil {
		return nil, err
	}
	w.App.InitChain(abci.RequestInitChain{
		ChainId: ChainID, Time: spec.Time, ConsensusParams: ConsensusParams(), AppStateBytes: state, InitialHeight: 1,
	})
	w.App.Commit()
	w.Height = w.App.LastBlockHeight()
	w.Time = spec.Time
	// first empty block, so that the check state carries a real header
	w.RunBlock(time.Second, nil)
	return w, nil
}

// TxRes is the part of a DeliverTx/CheckTx response that C01 names, plus log for diagnostics.
type TxRes struct {
	Code      uint32
	Codespace string
	Data      []byte
	GasWanted int64
	GasUsed   int64
	Log       string
	Events    []abci.Event
}

func (r TxRes) OK() bool { return r.Code == 0 }

type BlockRes struct {
	Height      int64
	Time        time.Time
	Txs         []TxRes
	BeginEvents []abci.Event
	EndEvents   []abci.Event
	AppHash     []byte
	Panic       string // non-empty if BeginBlock/EndBlock/Commit panicked
	PanicPhase  string
}

// BeginBlock starts block height+1 at time+dt.
func (w *World) BeginBlock(dt time.Duration) (res abci.ResponseBeginBlock, pan string) {
	return w.BeginBlockAt(w.Time.Add(dt))
}

// BeginBlockAt starts block height+1 at the absolute time t.
func (w *World) BeginBlockAt(t time.Time) (res abci.ResponseBeginBlock, pan string) {
	defer func() {
		if r := recover(); r != nil {
			pan = fmt.Sprint(r)
			w.Poisoned = true
		}
	}()
	w.hdr = tmproto.Header{ChainID: ChainID, Height: w.Height + 1, Time: t, AppHash: w.App.LastCommitID().Hash}
	w.BlockTxs = nil
	res = w.App.BeginBlock(abci.RequestBeginBlock{Header: w.hdr})
	w.inBlk = true
	return
}

func (w *World) DeliverTx(bz []byte) TxRes {
	w.BlockTxs = append(w.BlockTxs, bz)
	r := w.App.DeliverTx(abci.RequestDeliverTx{Tx: bz})
	return TxRes{Code: r.Code, Codespace: r.Codespace, Data: r.Data, GasWanted: r.GasWanted, GasUsed: r.GasUsed, Log: r.Log, Events: r.Events}
}

func (w *World) CheckTx(bz []byte) TxRes {
	r := w.App.CheckTx(abci.RequestCheckTx{Tx: bz, Type: abci.CheckTxType_New})
	return TxRes{Code: r.Code, Codespace: r.Codespace, Data: r.Data, GasWanted: r.GasWanted, GasUsed: r.GasUsed, Log: r.Log, Events: r.Events}
}

// Simulate runs a transaction in simulation mode (what clients do to estimate gas); nothing of it may persist.
func (w *World) Simulate(bz []byte) (ok bool, log string) {
	defer func() {
		if r := recover(); r != nil {
			ok, log = false, "simulation panicked: "+fmt.Sprint(r)
		}
	}()
	_, _, err := w.App.Simulate(bz)
	if err != nil {
		return false, err.Error()
	}
	return true, ""
}

// ReCheckTx is CheckTx in the mode the mempool uses after every commit for the transactions it still holds.
func (w *World) ReCheckTx(bz []byte) TxRes {
	r := w.App.CheckTx(abci.RequestCheckTx{Tx: bz, Type: abci.CheckTxType_Recheck})
	return TxRes{Code: r.Code, Codespace: r.Codespace, Data: r.Data, GasWanted: r.GasWanted, GasUsed: r.GasUsed, Log: r.Log, Events: r.Events}
}

func (w *World) EndBlock() (res abci.ResponseEndBlock, pan string) {
	defer func() {
		if r := recover(); r != nil {
			pan = fmt.Sprint(r)
			w.Poisoned = true
		}
	}()
	res = w.App.EndBlock(abci.RequestEndBlock{Height: w.hdr.Height})
	return
}

func (w *World) Commit() (hash []byte, pan string) {
	defer func() {
		if r := recover(); r != nil {
			pan = fmt.Sprint(r)
			w.Poisoned = true
		}
	}()
	c := w.App.Commit()
	w.inBlk = false
	w.qctx = nil
	w.Height = w.hdr.Height
	w.Time = w.hdr.Time
	return c.Data, ""
}

// TxFn produces the bytes of the i-th transaction when it is its turn (so it can be signed
// against the in-block state) and receives the result.
type TxFn func(w *World) []byte

// RunBlockFn runs one block; each tx is built lazily; between is called before/after each tx.
func (w *World) RunBlockFn(dt time.Duration, txs []TxFn, pre func(i int), post func(i int, r TxRes)) BlockRes {
	br := BlockRes{}
	bb, pan := w.BeginBlock(dt)
	if pan != "" {
		br.Panic, br.PanicPhase = pan, "BeginBlock"
		return br
	}
	br.BeginEvents = bb.Events
	br.Height, br.Time = w.hdr.Height, w.hdr.Time
	for i, f := range txs {
		if pre != nil {
			pre(i)
		}
		r := w.DeliverTx(f(w))
		br.Txs = append(br.Txs, r)
		if post != nil {
			post(i, r)
		}
	}
	eb, pan := w.EndBlock()
	if pan != "" {
		br.Panic, br.PanicPhase = pan, "EndBlock"
		return br
	}
	br.EndEvents = eb.Events
	h, pan := w.Commit()
	if pan != "" {
		br.Panic, br.PanicPhase = pan, "Commit"
		return br
	}
	br.AppHash = h
	return br
}

func (w *World) RunBlock(dt time.Duration, txs [][]byte) BlockRes {
	fns := make([]TxFn, len(txs))
	for i := range txs {
		bz := txs[i]
		fns[i] = func(*World) []byte { return bz }
	}
	return w.RunBlockFn(dt, fns, nil, nil)
}

// Ctx returns a context on the in-block (deliver) state when inside a block, otherwise on the
// last committed state (read through the committed multistore, valid after Restore too).
func (w *World) Ctx() sdk.Context {
	if w.inBlk {
		return w.App.BaseApp.NewContext(false, w.hdr)
	}
	if w.qctx == nil {
		ctx, err := w.App.CreateQueryContext(0, false)
		if err != nil {
			panic(fmt.Sprintf("harness: query context: %v", err))
		}
		ctx = ctx.WithBlockTime(w.Time)
		w.qctx = &ctx
	}
	return *w.qctx
}

// Query goes through the real gRPC query router of the application (committed state).
func (w *World) Query(path string, req proto.Message, resp proto.Message) (err error) {
	// a query handler that panics is an observation (the node's gRPC server would recover and answer
	// with an internal error), not a reason to abort the check
	defer func() {
		if p := recover(); p != nil {
			s := fmt.Sprint(p)
			if strings.HasPrefix(s, "harness:") {
				panic(p)
			}
			err = &QueryErr{Code: 111222, Log: "query handler panicked: " + s}
		}
	}()
	bz, err := proto.Marshal(req)
	if err != nil {
		return err
	}
	if w.inBlk {
		panic("harness: Query inside a block")
	}
	// same route and codec path as BaseApp.Query -> handleQueryGRPC, with the query context
	// created once per committed state (BaseApp.Query recomputes the commit hash on every call)
	h := w.App.GRPCQueryRouter().Route(path)
	if h == nil {
		return fmt.Errorf("no query route %s", path)
	}
	r, err := h(w.Ctx(), abci.RequestQuery{Path: path, Data: bz})
	if err != nil {
		return &QueryErr{Code: 1, Log: err.Error()}
	}
	return proto.Unmarshal(r.Value, resp)
}

// QueryABCI goes through BaseApp.Query itself (used where the full ABCI path matters).
func (w *World) QueryABCI(path string, req proto.Message, resp proto.Message) error {
	bz, err := proto.Marshal(req)
	if err != nil {
		return err
	}
	r := w.App.Query(abci.RequestQuery{Path: path, Data: bz})
	if r.Code != 0 {
		return &QueryErr{Code: r.Code, Codespace: r.Codespace, Log: r.Log}
	}
	return proto.Unmarshal(r.Value, resp)
}

type QueryErr struct {
	Code      uint32
	Codespace string
	Log       string
}

func (e *QueryErr) Error() string {
	return fmt.Sprintf("query failed: %s/%d: %s", e.Codespace, e.Code, e.Log)
}

// TxSpec describes a transaction to be signed.
type TxSpec struct {
	Msgs       []sdk.Msg
	Signers    []string // account names whose keys sign, in GetSigners order; default: derived from msgs
	Fee        sdk.Coins
	Gas        uint64
	FeeGranter string
	FeePayer   string
	BadSig     bool  // sign with a wrong key
	SeqDelta   int64 // added to the true sequence (stale/future sequence)
	Memo       string
	NoSign     bool
	// AminoJSON: sign in SIGN_MODE_LEGACY_AMINO_JSON (hardware wallets), where the bytes that are signed come
	// from each message's GetSignBytes
	AminoJSON bool
	// SwapMsgs: after signing, the messages are replaced by these and the signatures kept (a transaction that
	// was altered on its way)
	SwapMsgs []sdk.Msg
}

// Sign builds and signs spec against the account numbers/sequences of the current state.
func (w *World) Sign(spec TxSpec) ([]byte, error) {
	txc := w.App.TxConfig()
	b := txc.NewTxBuilder()
	if err := b.SetMsgs(spec.Msgs...); err != nil {
		return nil, err
	}
	b.SetFeeAmount(spec.Fee)
	gas := spec.Gas
	if gas == 0 {
		gas = GasLim
	}
	b.SetGasLimit(gas)
	b.SetMemo(spec.Memo)
	if spec.FeeGranter != "" {
		b.SetFeeGranter(w.Addr(spec.FeeGranter))
	}
	if spec.FeePayer != "" {
		b.SetFeePayer(w.Addr(spec.FeePayer))
	}
	signers := spec.Signers
	if signers == nil {
		seen := map[string]bool{}
		for _, m := range spec.Msgs {
			for _, s := range m.GetSigners() {
				n := w.NameOf(s.String())
				if !seen[n] {
					seen[n] = true
					signers = append(signers, n)
				}
			}
		}
		if spec.FeePayer != "" && !seen[spec.FeePayer] {
			signers = append(signers, spec.FeePayer)
		}
	}
	if spec.NoSign {
		return txc.TxEncoder()(b.GetTx())
	}
	mode := signing.SignMode_SIGN_MODE_DIRECT
	if spec.AminoJSON {
		mode = signing.SignMode_SIGN_MODE_LEGACY_AMINO_JSON
	}
	ctx := w.Ctx()
	type si struct {
		priv     cryptotypes.PrivKey
		num, seq uint64
	}
	var infos []si
	var sigs []signing.SignatureV2
	for _, n := range signers {
		ac, ok := w.Accts[n]
		if !ok {
			return nil, fmt.Errorf("unknown signer %q (module accounts cannot sign)", n)
		}
		var num, seq uint64
		if a := w.App.AccountKeeper.GetAccount(ctx, ac.Addr); a != nil {
			num, seq = a.GetAccountNumber(), a.GetSequence()
		}
		seq = uint64(int64(seq) + spec.SeqDelta)
		priv := ac.Priv
		infos = append(infos, si{priv, num, seq})
		sigs = append(sigs, signing.SignatureV2{PubKey: priv.PubKey(), Data: &signing.SingleSignatureData{SignMode: mode}, Sequence: seq})
	}
	if err := b.SetSignatures(sigs...); err != nil {
		return nil, err
	}
	for i, in := range infos {
		sd := authsigning.SignerData{ChainID: ChainID, AccountNumber: in.num, Sequence: in.seq, PubKey: in.priv.PubKey(), Address: sdk.AccAddress(in.priv.PubKey().Address()).String()}
		signKey := in.priv
		if spec.BadSig {
			signKey = MkAcct("wrong-key").Priv
		}
		sig, err := clienttx.SignWithPrivKey(mode, sd, b, signKey, txc, in.seq)
		if err != nil {
			return nil, err
		}
		if spec.BadSig {
			sig.PubKey = in.priv.PubKey()
		}
		sigs[i] = sig
	}
	if err := b.SetSignatures(sigs...); err != nil {
		return nil, err
	}
	if spec.SwapMsgs != nil {
		if err := b.SetMsgs(spec.SwapMsgs...); err != nil {
			return nil, err
		}
	}
	return txc.TxEncoder()(b.GetTx())
}

func (w *World) MustSign(spec TxSpec) []byte {
	bz, err := w.Sign(spec)
	if err != nil {
		panic(fmt.Sprintf("harness: cannot sign: %v", err))
	}
	return bz
}

// ---- snapshot / restore --------------------------------------------------------------------

type KV struct{ K, V []byte }

func cp(b []byte) []byte {
	o := make([]byte, len(b))
	copy(o, b)
	return o
}

// BaseSnap is an immutable full copy of a database; snapshots are stored as differences to it
// (an IAVL-backed database only ever adds nodes, so the difference is what the blocks since the
// base have written).
type BaseSnap struct {
	m map[string][]byte
}

func (w *World) MakeBase() *BaseSnap {
	b := &BaseSnap{m: map[string][]byte{}}
	for _, kv := range DumpDB(w.DB) {
		b.m[string(kv.K)] = kv.V
	}
	return b
}

// SetBase makes later snapshots of this world relative to b.
func (w *World) SetBase(b *BaseSnap) { w.base = b }

type Snap struct {
	base    *BaseSnap
	blob    []byte   // length-prefixed key/value pairs that differ from base
	tomb    [][]byte // keys of base that are absent
	N       int
	Height  int64
	Time    time.Time
	AppHash []byte
}

// Size is the number of bytes the snapshot keeps (its difference to the base).
func (s *Snap) Size() int {
	n := len(s.blob)
	for _, k := range s.tomb {
		n += len(k)
	}
	return n
}

func DumpDB(db dbm.DB) []KV {
	it, err := db.Iterator(nil, nil)
	if err != nil {
		panic(err)
	}
	defer it.Close()
	var out []KV
	for ; it.Valid(); it.Next() {
		out = append(out, KV{cp(it.Key()), cp(it.Value())})
	}
	return out
}

func putLen(b []byte, n int) []byte {
	return append(b, byte(n>>24), byte(n>>16), byte(n>>8), byte(n))
}

func (w *World) Snapshot() *Snap {
	if w.inBlk {
		panic("harness: snapshot inside a block")
	}
	it, err := w.DB.Iterator(nil, nil)
	if err != nil {
		panic(err)
	}
	defer it.Close()
	s := &Snap{base: w.base, Height: w.Height, Time: w.Time, AppHash: w.App.LastCommitID().Hash}
	blob := make([]byte, 0, 64<<10)
	matched := 0
	for ; it.Valid(); it.Next() {
		k, v := it.Key(), it.Value()
		s.N++
		if w.base != nil {
			if bv, ok := w.base.m[string(k)]; ok {
				matched++
				if bytes.Equal(bv, v) {
					continue
				}
			}
		}
		blob = putLen(blob, len(k))
		blob = append(blob, k...)
		blob = putLen(blob, len(v))
		blob = append(blob, v...)
	}
	s.blob = append([]byte(nil), blob...)
	if w.base != nil && matched < len(w.base.m) {
		for k := range w.base.m {
			if ok, _ := w.DB.Has([]byte(k)); !ok {
				s.tomb = append(s.tomb, []byte(k))
			}
		}
	}
	return s
}

// each calls f for every key/value pair of the difference blob (slices alias the snapshot).
func (s *Snap) each(f func(k, v []byte)) {
	b := s.blob
	for len(b) > 0 {
		n := int(b[0])<<24 | int(b[1])<<16 | int(b[2])<<8 | int(b[3])
		k := b[4 : 4+n]
		b = b[4+n:]
		n = int(b[0])<<24 | int(b[1])<<16 | int(b[2])<<8 | int(b[3])
		v := b[4 : 4+n]
		b = b[4+n:]
		f(k, v)
	}
}

// Restore makes the database contents equal to the snapshot, in place, and reloads the multistore.
func (w *World) Restore(s *Snap) {
	if w.Poisoned {
		panic("harness: Restore on an application instance that panicked inside a block")
	}
	diff := map[string][]byte{}
	s.each(func(k, v []byte) { diff[string(k)] = v })
	tomb := map[string]bool{}
	for _, k := range s.tomb {
		tomb[string(k)] = true
	}
	want := func(k string) ([]byte, bool) {
		if v, ok := diff[k]; ok {
			return v, true
		}
		if s.base != nil && !tomb[k] {
			v, ok := s.base.m[k]
			return v, ok
		}
		return nil, false
	}
	it, err := w.DB.Iterator(nil, nil)
	if err != nil {
		panic(err)
	}
	have := map[string]bool{}
	var del [][]byte
	var set []KV
	for ; it.Valid(); it.Next() {
		k := string(it.Key())
		v, ok := want(k)
		if !ok {
			del = append(del, cp(it.Key()))
			continue
		}
		have[k] = true
		if !bytes.Equal(v, it.Value()) {
			set = append(set, KV{[]byte(k), cp(v)})
		}
	}
	it.Close()
	for _, k := range del {
		if err := w.DB.Delete(k); err != nil {
			panic(err)
		}
	}
	for k, v := range diff {
		if !have[k] {
			set = append(set, KV{[]byte(k), cp(v)})
		}
	}
	if s.base != nil {
		for k, v := range s.base.m {
			if !have[k] && !tomb[k] {
				if _, inDiff := diff[k]; !inDiff {
					set = append(set, KV{[]byte(k), cp(v)})
				}
			}
		}
	}
	for _, kv := range set {
		if err := w.DB.Set(kv.K, kv.V); err != nil {
			panic(err)
		}
	}
	if err := w.App.CommitMultiStore().LoadLatestVersion(); err != nil {
		panic(fmt.Sprintf("harness: reload after restore: %v", err))
	}
	w.Height, w.Time, w.inBlk, w.qctx = s.Height, s.Time, false, nil
	cid := w.App.LastCommitID()
	if cid.Version != s.Height || !bytes.Equal(cid.Hash, s.AppHash) {
		panic(fmt.Sprintf("harness: restore mismatch: height %d hash %X, snapshot height %d hash %X", cid.Version, cid.Hash, s.Height, s.AppHash))
	}
}

// StoreDump returns the sorted raw KV pairs of one module store (committed or in-block state).
func (w *World) StoreDump(ctx sdk.Context, storeKey string) []KV {
	st := ctx.KVStore(w.App.GetKey(storeKey))
	it := st.Iterator(nil, nil)
	defer it.Close()
	var out []KV
	for ; it.Valid(); it.Next() {
		out = append(out, KV{cp(it.Key()), cp(it.Value())})
	}
	return out
}

var CustomStores = []string{enttypes.StoreKey, wrkchaintypes.StoreKey, beacontypes.StoreKey, streamtypes.StoreKey}

func SortedNames(m map[string]*Acct) []string {
	var ns []string
	for n := range m {
		ns = append(ns, n)
	}
	sort.Strings(ns)
	return ns
}
