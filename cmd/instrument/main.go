// instrument generates a `go build -overlay` file for /repo in which, on the consensus paths
// (ante/, app/, types/, x/ without client/, simulation/, tests and generated code), every
// time.Now()/time.Since() call goes through verifhook and every range over a map iterates
// verifhook.Keys(m). It is run from the current working tree on every C01 check, so newly
// introduced clock reads or map ranges are instrumented too. /repo is never modified.
package main

import (
	"bytes"
	"encoding/json"
	"fmt"
	"go/ast"
	"go/format"
	"go/parser"
	"go/token"
	"os"
	"path/filepath"
	"strings"
)

const hookPath = "github.com/unification-com/mainchain/verifhook"

type site struct {
	File string `json:"file"`
	Line int    `json:"line"`
	Kind string `json:"kind"`
	Text string `json:"text"`
}

func isMapType(e ast.Expr) bool {
	switch t := e.(type) {
	case *ast.MapType:
		return true
	case *ast.ParenExpr:
		return isMapType(t.X)
	}
	return false
}

// mapExpr: does the expression syntactically construct a map (make(map..), map literal)?
func mapExpr(e ast.Expr) bool {
	switch v := e.(type) {
	case *ast.CallExpr:
		if id, ok := v.Fun.(*ast.Ident); ok && id.Name == "make" && len(v.Args) > 0 {
			return isMapType(v.Args[0])
		}
	case *ast.CompositeLit:
		return v.Type != nil && isMapType(v.Type)
	}
	return false
}

func main() {
	repo, out := os.Args[1], os.Args[2]
	overlay := map[string]string{}
	var sites []site
	must(os.MkdirAll(filepath.Join(out, "verifhook"), 0o755))
	hookSrc, err := os.ReadFile(os.Args[3])
	must(err)
	must(os.WriteFile(filepath.Join(out, "verifhook", "hook.go"), hookSrc, 0o644))
	overlay[filepath.Join(repo, "verifhook", "hook.go")] = filepath.Join(out, "verifhook", "hook.go")

	// pass 1: per directory (package), names that are map-typed: struct fields, package vars, named map types
	pkgMaps := map[string]map[string]bool{}
	var files []string
	for _, top := range []string{"ante", "app", "types", "x"} {
		filepath.Walk(filepath.Join(repo, top), func(p string, info os.FileInfo, err error) error {
			if err != nil {
				return nil
			}
			if info.IsDir() {
				b := info.Name()
				if b == "client" || b == "simulation" || b == "testutil" || b == "migrations" {
					return filepath.SkipDir
				}
				return nil
			}
			if !strings.HasSuffix(p, ".go") || strings.HasSuffix(p, "_test.go") || strings.HasSuffix(p, ".pb.go") || strings.HasSuffix(p, ".pb.gw.go") || strings.HasSuffix(p, "test_helpers.go") || strings.Contains(p, "sim_") || strings.Contains(p, "module_simulation") {
				return nil
			}
			files = append(files, p)
			return nil
		})
	}
	fset := token.NewFileSet()
	parsed := map[string]*ast.File{}
	for _, p := range files {
		f, err := parser.ParseFile(fset, p, nil, parser.ParseComments)
		if err != nil {
			fmt.Fprintf(os.Stderr, "instrument: cannot parse %s: %v\n", p, err)
			os.Exit(2)
		}
		parsed[p] = f
		dir := filepath.Dir(p)
		if pkgMaps[dir] == nil {
			pkgMaps[dir] = map[string]bool{}
		}
		ast.Inspect(f, func(n ast.Node) bool {
			switch v := n.(type) {
			case *ast.TypeSpec:
				if isMapType(v.Type) {
					pkgMaps[dir]["type:"+v.Name.Name] = true
				}
			case *ast.Field:
				if isMapType(v.Type) {
					for _, nm := range v.Names {
						pkgMaps[dir][nm.Name] = true
					}
				}
			case *ast.ValueSpec:
				for i, nm := range v.Names {
					if (v.Type != nil && isMapType(v.Type)) || (i < len(v.Values) && mapExpr(v.Values[i])) {
						pkgMaps[dir][nm.Name] = true
					}
				}
			case *ast.AssignStmt:
				for i, l := range v.Lhs {
					if id, ok := l.(*ast.Ident); ok && i < len(v.Rhs) && mapExpr(v.Rhs[i]) {
						pkgMaps[dir][id.Name] = true
					}
				}
			}
			return true
		})
	}
	// pass 2: rewrite
	for _, p := range files {
		f := parsed[p]
		dir := filepath.Dir(p)
		changed := false
		timeName := ""
		for _, im := range f.Imports {
			if im.Path.Value == `"time"` {
				timeName = "time"
				if im.Name != nil {
					timeName = im.Name.Name
				}
			}
		}
		isMapName := func(e ast.Expr) bool {
			switch v := e.(type) {
			case *ast.Ident:
				return pkgMaps[dir][v.Name]
			case *ast.SelectorExpr:
				return pkgMaps[dir][v.Sel.Name]
			}
			return mapExpr(e)
		}
		ast.Inspect(f, func(n ast.Node) bool {
			switch v := n.(type) {
			case *ast.CallExpr:
				if sel, ok := v.Fun.(*ast.SelectorExpr); ok && timeName != "" {
					if id, ok := sel.X.(*ast.Ident); ok && id.Name == timeName && (sel.Sel.Name == "Now" || sel.Sel.Name == "Since") {
						sites = append(sites, site{rel(repo, p), fset.Position(v.Pos()).Line, "clock", timeName + "." + sel.Sel.Name})
						id.Name = "verifhook"
						changed = true
					}
				}
			case *ast.RangeStmt:
				if isMapName(v.X) && v.Key != nil {
					k, ok := v.Key.(*ast.Ident)
					if !ok {
						return true
					}
					var buf bytes.Buffer
					format.Node(&buf, fset, v.X)
					sites = append(sites, site{rel(repo, p), fset.Position(v.Pos()).Line, "map-range", "range " + buf.String()})
					mexpr := v.X
					kn := k.Name
					if kn == "_" {
						kn = "verifKey"
					}
					v.X = &ast.CallExpr{Fun: &ast.SelectorExpr{X: ast.NewIdent("verifhook"), Sel: ast.NewIdent("Keys")}, Args: []ast.Expr{mexpr}}
					v.Key = ast.NewIdent("_")
					oldVal := v.Value
					v.Value = ast.NewIdent(kn)
					v.Tok = token.DEFINE
					if oldVal != nil {
						if vid, ok := oldVal.(*ast.Ident); ok && vid.Name != "_" {
							assign := &ast.AssignStmt{Lhs: []ast.Expr{ast.NewIdent(vid.Name)}, Tok: token.DEFINE, Rhs: []ast.Expr{&ast.IndexExpr{X: mexpr, Index: ast.NewIdent(kn)}}}
							use := &ast.AssignStmt{Lhs: []ast.Expr{ast.NewIdent("_")}, Tok: token.ASSIGN, Rhs: []ast.Expr{ast.NewIdent(vid.Name)}}
							v.Body.List = append([]ast.Stmt{assign, use}, v.Body.List...)
						}
					}
					if k.Name == "_" {
						v.Body.List = append([]ast.Stmt{&ast.AssignStmt{Lhs: []ast.Expr{ast.NewIdent("_")}, Tok: token.ASSIGN, Rhs: []ast.Expr{ast.NewIdent(kn)}}}, v.Body.List...)
					}
					changed = true
				}
			}
			return true
		})
		if !changed {
			continue
		}
		// add the import; keep "time" only if still used
		addImport(f, hookPath)
		if timeName != "" && !usesIdent(f, timeName) {
			dropImport(f, "time")
		}
		var buf bytes.Buffer
		must(format.Node(&buf, fset, f))
		dst := filepath.Join(out, "src", rel(repo, p))
		must(os.MkdirAll(filepath.Dir(dst), 0o755))
		must(os.WriteFile(dst, buf.Bytes(), 0o644))
		overlay[p] = dst
	}
	bz, _ := json.MarshalIndent(map[string]any{"Replace": overlay}, "", " ")
	must(os.WriteFile(filepath.Join(out, "overlay.json"), bz, 0o644))
	sb, _ := json.MarshalIndent(sites, "", " ")
	must(os.WriteFile(filepath.Join(out, "sites.json"), sb, 0o644))
	fmt.Printf("instrument: %d files scanned, %d rewritten, %d sites\n", len(files), len(overlay)-1, len(sites))
}

func rel(repo, p string) string { r, _ := filepath.Rel(repo, p); return r }

func usesIdent(f *ast.File, name string) bool {
	used := false
	ast.Inspect(f, func(n ast.Node) bool {
		if sel, ok := n.(*ast.SelectorExpr); ok {
			if id, ok := sel.X.(*ast.Ident); ok && id.Name == name {
				used = true
			}
		}
		return true
	})
	return used
}

func addImport(f *ast.File, path string) {
	for _, im := range f.Imports {
		if im.Path.Value == `"`+path+`"` {
			return
		}
	}
	spec := &ast.ImportSpec{Path: &ast.BasicLit{Kind: token.STRING, Value: `"` + path + `"`}}
	for _, d := range f.Decls {
		if gd, ok := d.(*ast.GenDecl); ok && gd.Tok == token.IMPORT {
			gd.Specs = append(gd.Specs, spec)
			if !gd.Lparen.IsValid() {
				gd.Lparen = gd.Pos()
			}
			f.Imports = append(f.Imports, spec)
			return
		}
	}
	gd := &ast.GenDecl{Tok: token.IMPORT, Specs: []ast.Spec{spec}}
	f.Decls = append([]ast.Decl{gd}, f.Decls...)
	f.Imports = append(f.Imports, spec)
}

func dropImport(f *ast.File, path string) {
	for _, d := range f.Decls {
		if gd, ok := d.(*ast.GenDecl); ok && gd.Tok == token.IMPORT {
			var keep []ast.Spec
			for _, s := range gd.Specs {
				if s.(*ast.ImportSpec).Path.Value != `"`+path+`"` {
					keep = append(keep, s)
				}
			}
			gd.Specs = keep
		}
	}
}

func must(err error) {
	if err != nil {
		fmt.Fprintln(os.Stderr, "instrument:", err)
		os.Exit(2)
	}
}
