package main

import (
	"fmt"
	"os"
	"runtime/debug"
	"runtime/pprof"
	"strconv"

	"verif/scen"
)

func main() {
	// keep the heap in check: the explorer allocates a lot of short-lived application state
	debug.SetGCPercent(gcPercent())
	debug.SetMemoryLimit(24 << 30)
	if len(os.Args) < 2 {
		fmt.Fprintln(os.Stderr, "usage: vcheck run <id> <quick|thorough> | replay <file> | list")
		os.Exit(2)
	}
	switch os.Args[1] {
	case "run":
		mk, ok := scen.Checks[os.Args[2]]
		if !ok {
			fmt.Fprintf(os.Stderr, "unknown check %s\n", os.Args[2])
			os.Exit(2)
		}
		tier := scen.Quick
		if len(os.Args) > 3 && os.Args[3] == "thorough" {
			tier = scen.Thorough
		}
		if t := os.Getenv("VERIF_TIER"); t == "thorough" && len(os.Args) <= 3 {
			tier = scen.Thorough
		}
		if pf := os.Getenv("VERIF_PROF"); pf != "" {
			f, _ := os.Create(pf)
			pprof.StartCPUProfile(f)
			code := mk().Execute(tier)
			pprof.StopCPUProfile()
			os.Exit(code)
		}
		os.Exit(mk().Execute(tier))
	case "c01worker":
		os.Exit(scen.C01Worker(scen.Tier(os.Args[2]), os.Args[3]))
	case "c01replay":
		os.Exit(scen.C01Replay(os.Args[2], os.Args[3], os.Args[4]))
	case "path":
		scen.DebugPath(os.Args[2], os.Args[3], os.Args[4:])
	case "replay":
		os.Exit(scen.ReplayFile(os.Args[2]))
	case "list":
		for id := range scen.Checks {
			fmt.Println(id)
		}
	default:
		os.Exit(2)
	}
}

// gcPercent: the explorer allocates a lot of short-lived application state; a larger heap growth factor
// trades memory (bounded by the limit above) for less collector work. VERIF_GOGC overrides.
func gcPercent() int {
	if n, err := strconv.Atoi(os.Getenv("VERIF_GOGC")); err == nil && n > 0 {
		return n
	}
	return 200
}
