package model

import (
	"math/big"
	"regexp"
	"strings"
)

var denomRe = regexp.MustCompile(`^[a-zA-Z][a-zA-Z0-9/:._-]{2,127}$`)

// EntParamsRaw is an enterprise parameter set as submitted: Signers is the raw comma-separated
// parameter where each entry is an account name, or "!literal" for a literal (malformed) entry.
type EntParamsRaw struct {
	Denom   string
	Signers string
	Min     uint64
	Limit   uint64
}

func SignerEntries(raw string) []string {
	return strings.Split(raw, ",")
}

// ValidEnt transcribes A.6 for the enterprise module.
func ValidEnt(p EntParamsRaw) bool {
	if !denomRe.MatchString(p.Denom) {
		return false
	}
	if p.Min < 1 || p.Limit < 1 {
		return false
	}
	if p.Signers == "" {
		return false
	}
	es := SignerEntries(p.Signers)
	for _, e := range es {
		if e == "" || strings.HasPrefix(e, "!") || strings.Contains(e, "~") { // empty, malformed text, padded with white space
			return false
		}
	}
	return new(big.Int).SetInt64(int64(len(es))).Cmp(U(p.Min)) >= 0
}

func ValidAnchor(p AnchorParams) bool {
	if !denomRe.MatchString(p.Denom) {
		return false
	}
	if p.FeeReg < 1 || p.FeeRec < 1 || p.FeePur < 1 {
		return false
	}
	return p.Default >= 1 && p.Max >= 1 && p.Default <= p.Max
}

// ValidFeeRate: rate given as decimal string ("" = nil).
func ValidFeeRate(r string) bool {
	if r == "" {
		return false
	}
	x, ok := new(big.Rat).SetString(r)
	if !ok {
		return false
	}
	return x.Sign() >= 0 && x.Cmp(big.NewRat(1, 1)) <= 0
}

// SetParams applies a parameter update if and only if it is valid as a whole.
func (s *State) SetParams(kind string, p any) string {
	switch kind {
	case EntParams:
		q := p.(EntParamsRaw)
		if !ValidEnt(q) {
			return "invalid_params"
		}
		s.Ent.P = EntP{Denom: q.Denom, Signers: SignerEntries(q.Signers), Min: q.Min, Limit: q.Limit}
	case WrkParams:
		q := p.(AnchorParams)
		if !ValidAnchor(q) {
			return "invalid_params"
		}
		s.Wrk.P = q
	case BcnParams:
		q := p.(AnchorParams)
		if !ValidAnchor(q) {
			return "invalid_params"
		}
		s.Bcn.P = q
	case StrParams:
		q := p.(string)
		if !ValidFeeRate(q) {
			return "invalid_params"
		}
		s.FeeNum = q
	default:
		panic("model: SetParams kind " + kind)
	}
	return ""
}
