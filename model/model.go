// Package model holds the reference models (oracles) transcribed from the property statements.
// It never imports keeper code of the repository under test. All arithmetic is unbounded.
// Accounts are scenario names ("A", "S1", ...) or "mod:<module>" for module accounts.
package model

import (
	"encoding/json"
	"fmt"
	"math/big"
	"sort"
	"strings"
)

// ---------------------------------------------------------------------------------------------
// helpers

func I(x int64) *big.Int      { return big.NewInt(x) }
func U(x uint64) *big.Int     { return new(big.Int).SetUint64(x) }
func Z() *big.Int             { return new(big.Int) }
func cpI(x *big.Int) *big.Int { return new(big.Int).Set(x) }
func minI(a, b *big.Int) *big.Int {
	if a.Cmp(b) <= 0 {
		return cpI(a)
	}
	return cpI(b)
}

var (
	MaxU64  = new(big.Int).SetUint64(^uint64(0))
	nsPerS  = big.NewInt(1_000_000_000)
	ModEnt  = "mod:enterprise"
	ModStr  = "mod:stream"
	ModFee  = "mod:fee_collector"
	ModDist = "mod:distribution"
	ModGov  = "mod:gov"
)

// Blocked reports whether the bank refuses transfers to the account (module accounts except gov).
func Blocked(name string) bool {
	return strings.HasPrefix(name, "mod:") && name != ModGov
}

const (
	StRaised    = 1
	StAccepted  = 2
	StRejected  = 3
	StCompleted = 4
)

// message kinds
const (
	EntRaise     = "ent.raise"
	EntDecide    = "ent.decide"
	EntWhitelist = "ent.whitelist"
	EntParams    = "ent.params"
	WrkReg       = "wrk.reg"
	WrkRec       = "wrk.rec"
	WrkPur       = "wrk.pur"
	WrkParams    = "wrk.params"
	BcnReg       = "bcn.reg"
	BcnRec       = "bcn.rec"
	BcnPur       = "bcn.pur"
	BcnParams    = "bcn.params"
	StrCreate    = "str.create"
	StrClaim     = "str.claim"
	StrTopUp     = "str.topup"
	StrUpdate    = "str.update"
	StrCancel    = "str.cancel"
	StrParams    = "str.params"
	BankSend     = "bank.send"
	BankMulti    = "bank.multisend"
	AuthzGrant   = "authz.grant"
	AuthzExec    = "authz.exec"
	FeeGrant     = "feegrant.grant"
	Delegate     = "staking.delegate"
)

// Msg is the model-level description of a message; the harness builds the real sdk.Msg from it.
type Msg struct {
	Kind string `json:"k"`
	From string `json:"from,omitempty"` // the account the message names as acting party (its required signer)
	To   string `json:"to,omitempty"`   // receiver / whitelisted address / grantee
	ID   uint64 `json:"id,omitempty"`
	H    uint64 `json:"h,omitempty"` // wrkchain height
	N    uint64 `json:"n,omitempty"` // slots / decision / action
	Amt  string `json:"amt,omitempty"`
	Den  string `json:"den,omitempty"`
	Rate int64  `json:"rate,omitempty"`
	// anchoring content
	S      []string `json:"s,omitempty"` // moniker,name,genesis,type  |  blockhash,parent,h1,h2,h3 | hash
	T      uint64   `json:"t,omitempty"` // beacon submit time
	Inner  []Msg    `json:"inner,omitempty"`
	Params any      `json:"params,omitempty"`
	URL    string   `json:"url,omitempty"` // authz grant msg type
	// Up: the addresses in the message are spelled in upper case (a legal bech32 spelling of the same accounts)
	Up bool `json:"up,omitempty"`
}

func (m Msg) AmtI() *big.Int {
	if m.Amt == "" {
		return Z()
	}
	x, ok := new(big.Int).SetString(m.Amt, 10)
	if !ok {
		panic("model: bad amount " + m.Amt)
	}
	return x
}

func (m Msg) str(i int) string {
	if i < len(m.S) {
		return m.S[i]
	}
	return ""
}

// Tx is the model-level description of a transaction.
type Tx struct {
	Msgs       []Msg             `json:"msgs"`
	Signers    []string          `json:"signers,omitempty"` // keys that sign; default: required signers
	Fee        map[string]string `json:"fee,omitempty"`     // denom -> amount
	FeeGranter string            `json:"granter,omitempty"`
	FeePayer   string            `json:"payer,omitempty"` // explicit fee payer (co-signs); default: the first signer
	// Signed: the messages that were actually signed (amino-JSON mode) when they differ from Msgs: the
	// transaction was altered after signing and must be refused
	Signed   []Msg `json:"signed,omitempty"`
	BadSig   bool  `json:"badsig,omitempty"`
	SeqDelta int64 `json:"seqdelta,omitempty"`
}

func (t Tx) FeeOf(denom string) *big.Int {
	if a, ok := t.Fee[denom]; ok {
		x, _ := new(big.Int).SetString(a, 10)
		return x
	}
	return Z()
}

// RequiredSigners: union of the From fields of the top-level messages, in order.
func (t Tx) RequiredSigners() []string {
	var out []string
	seen := map[string]bool{}
	for _, m := range t.Msgs {
		if !seen[m.From] {
			seen[m.From] = true
			out = append(out, m.From)
		}
	}
	if t.FeePayer != "" && !seen[t.FeePayer] {
		out = append(out, t.FeePayer) // an explicit fee payer has to sign as well
	}
	return out
}

func (t Tx) Payer() string {
	if t.FeePayer != "" {
		return t.FeePayer
	}
	rs := t.RequiredSigners()
	if len(rs) == 0 {
		return ""
	}
	return rs[0]
}

func IsAnchorKind(k string) bool {
	switch k {
	case WrkReg, WrkRec, WrkPur, BcnReg, BcnRec, BcnPur:
		return true
	}
	return false
}

// HasTopLevelAnchorMsg: does the tx contain a WRKChain or BEACON message at top level.
func (t Tx) HasTopLevelAnchorMsg() bool {
	for _, m := range t.Msgs {
		if IsAnchorKind(m.Kind) {
			return true
		}
	}
	return false
}

// Flatten returns all messages with authz.exec wrappers removed (recursively).
func Flatten(ms []Msg) []Msg {
	var out []Msg
	for _, m := range ms {
		if m.Kind == AuthzExec {
			out = append(out, Flatten(m.Inner)...)
		} else {
			out = append(out, m)
		}
	}
	return out
}

// ---------------------------------------------------------------------------------------------
// state

type Decision struct {
	Signer string
	Dec    int
	Time   int64
}

type Order struct {
	ID        uint64
	Purchaser string
	Amount    *big.Int
	Denom     string
	Status    int
	Decisions []Decision
	Raised    int64
}

type EntP struct {
	Denom   string
	Signers []string // as listed in the parameter (entries, not a set)
	Min     uint64
	Limit   uint64
}

type Ent struct {
	P         EntP
	Whitelist map[string]bool
	NextID    uint64
	Orders    map[uint64]*Order
	Locked    map[string]*big.Int
	Spent     map[string]*big.Int
	Completed map[string]*big.Int // sum of completed orders per purchaser
}

type AnchorParams struct {
	FeeReg, FeeRec, FeePur uint64
	Denom                  string
	Default, Max           uint64
}

type Rec struct {
	H  uint64   // height (wrkchain) or timestamp id (beacon)
	S  []string // hashes
	T  uint64   // beacon: submit time
	At int64    // wrkchain: block time of acceptance (unix s)
}

type Entity struct {
	ID      uint64
	Owner   string
	Ident   []string // moniker, name, genesis, type (wrkchain) | moniker, name (beacon)
	RegTime int64
	Limit   uint64
	InState map[uint64]Rec
	Last    uint64
	Ever    map[uint64]Rec
}

type Anchor struct {
	P      AnchorParams
	NextID uint64
	Ents   map[uint64]*Entity
}

type Stream struct {
	Recv, Sender, Denom string
	D                   *big.Int
	R                   int64
	L, Z                *big.Int // unix nanoseconds
	// ledger
	Deposited, Paid, Fees, Refunded *big.Int
}

type State struct {
	Now    *big.Int // unix nanoseconds of the current block (beyond int64 range after year 2262)
	Bal    map[string]map[string]*big.Int
	Supply map[string]*big.Int
	Ent    Ent
	Wrk    Anchor
	Bcn    Anchor
	FeeNum string // validator fee rate as exact decimal string, e.g. "0.010000000000000000"
	Str    map[string]*Stream
	Grants map[string]bool // granter|grantee|url
	FeeAl  map[string]bool // granter|grantee
	// ledgers of cancelled streams are kept for the conservation identity
	Closed []*Stream
	// transient: total released / refunded by the stream message executed last (nil if none)
	LastRelease, LastRefund *big.Int
	// Obs: free-form harness observations carried along a path (e.g. digests of terminal orders)
	Obs map[string]string
	// ObsLedger: per-stream ledger built from OBSERVED balance movements (harness state, C10)
	ObsLedger map[string]*Ledger
}

type Ledger struct{ Deposited, Paid, Fees, Refunded *big.Int }

func (s *State) Clone() *State {
	bz, err := json.Marshal(s)
	if err != nil {
		panic(err)
	}
	var o State
	if err := json.Unmarshal(bz, &o); err != nil {
		panic(err)
	}
	return &o
}

// Canon is a canonical serialisation (encoding/json sorts map keys).
func (s *State) Canon() []byte {
	bz, err := json.Marshal(s)
	if err != nil {
		panic(err)
	}
	return bz
}

func (s *State) NowS() int64 {
	q, m := new(big.Int).DivMod(s.Now, nsPerS, new(big.Int))
	_ = m
	return q.Int64()
}

func floorDiv(a, b int64) int64 {
	q := a / b
	if (a%b != 0) && ((a < 0) != (b < 0)) {
		q--
	}
	return q
}

func (s *State) BalOf(acc, denom string) *big.Int {
	if m, ok := s.Bal[acc]; ok {
		if v, ok := m[denom]; ok {
			return v
		}
	}
	return Z()
}

func (s *State) addBal(acc, denom string, d *big.Int) {
	if s.Bal[acc] == nil {
		s.Bal[acc] = map[string]*big.Int{}
	}
	v := new(big.Int).Add(s.BalOf(acc, denom), d)
	if v.Sign() == 0 {
		delete(s.Bal[acc], denom)
		return
	}
	s.Bal[acc][denom] = v
}

func (s *State) move(from, to, denom string, amt *big.Int) {
	if amt.Sign() == 0 {
		return
	}
	s.addBal(from, denom, new(big.Int).Neg(amt))
	s.addBal(to, denom, amt)
}

// Env supplies facts about SDK-owned state that the model does not track itself.
type Env interface {
	// LockedVesting returns the amount of denom that is still vesting-locked for acc at the
	// current block time (0 for base accounts). Spendable = balance - locked (clamped at 0).
	LockedVesting(acc, denom string) *big.Int
}

type NoEnv struct{}

func (NoEnv) LockedVesting(string, string) *big.Int { return Z() }

func (s *State) Spendable(env Env, acc, denom string) *big.Int {
	b := s.BalOf(acc, denom)
	l := env.LockedVesting(acc, denom)
	if l.Cmp(b) >= 0 {
		return Z()
	}
	return new(big.Int).Sub(b, l)
}

// Fail describes why the model rejects a message.
type Fail struct {
	Idx    int    // index among the flattened execution order
	Kind   string // message kind
	Reason string
}

func (f *Fail) Error() string { return fmt.Sprintf("msg %d (%s): %s", f.Idx, f.Kind, f.Reason) }

// ---------------------------------------------------------------------------------------------
// block begin

// BeginBlock applies what every block does before transactions: fee collector sweep (SDK
// distribution), then enterprise: complete accepted orders, then tally raised ones.
// It returns the ids completed, accepted and rejected in this block.
func (s *State) BeginBlock(nowNs *big.Int) (completed, accepted, rejected []uint64) {
	s.Now = cpI(nowNs)
	for d, v := range s.Bal[ModFee] {
		s.move(ModFee, ModDist, d, cpI(v))
	}
	t := s.NowS()
	for _, id := range s.orderIDs() {
		o := s.Ent.Orders[id]
		if o.Status == StAccepted {
			o.Status = StCompleted
			s.addM(s.Ent.Locked, o.Purchaser, o.Amount)
			s.addM(s.Ent.Completed, o.Purchaser, o.Amount)
			s.addBal(ModEnt, o.Denom, o.Amount)
			s.Supply[o.Denom] = new(big.Int).Add(s.SupplyOf(o.Denom), o.Amount)
			completed = append(completed, id)
		}
	}
	n := new(big.Int).SetInt64(int64(len(s.Ent.P.Signers)))
	min := U(s.Ent.P.Min)
	for _, id := range s.orderIDs() {
		o := s.Ent.Orders[id]
		if o.Status != StRaised {
			continue
		}
		a, r := 0, 0
		for _, d := range o.Decisions {
			if d.Dec == StAccepted {
				a++
			} else if d.Dec == StRejected {
				r++
			}
		}
		ab, rb := I(int64(a)), I(int64(r))
		switch {
		case U(uint64(t-o.Raised)).Cmp(U(s.Ent.P.Limit)) >= 0 && ab.Cmp(min) < 0:
			o.Status = StRejected
			rejected = append(rejected, id)
		case rb.Cmp(new(big.Int).Sub(n, min)) > 0:
			o.Status = StRejected
			rejected = append(rejected, id)
		case ab.Cmp(min) >= 0:
			o.Status = StAccepted
			accepted = append(accepted, id)
		}
	}
	return
}

func (s *State) SupplyOf(d string) *big.Int {
	if v, ok := s.Supply[d]; ok {
		return v
	}
	return Z()
}

func (s *State) addM(m map[string]*big.Int, k string, d *big.Int) {
	v, ok := m[k]
	if !ok {
		v = Z()
	}
	m[k] = new(big.Int).Add(v, d)
}

func (s *State) orderIDs() []uint64 {
	ids := make([]uint64, 0, len(s.Ent.Orders))
	for id := range s.Ent.Orders {
		ids = append(ids, id)
	}
	sort.Slice(ids, func(i, j int) bool { return ids[i] < ids[j] })
	return ids
}

func (s *State) LockedOf(a string) *big.Int {
	if v, ok := s.Ent.Locked[a]; ok {
		return v
	}
	return Z()
}

func (s *State) SpentOf(a string) *big.Int {
	if v, ok := s.Ent.Spent[a]; ok {
		return v
	}
	return Z()
}

func (s *State) IsSigner(a string) bool {
	for _, x := range s.Ent.P.Signers {
		if x == a {
			return true
		}
	}
	return false
}

// ---------------------------------------------------------------------------------------------
// transactions

// FeeEffects applies what the pre-execution stage does to balances once it has passed:
// eFUND unlock for transactions with a top-level WRKChain/BEACON message (A.2), fee deduction.
func (s *State) FeeEffects(tx Tx) (unlocked *big.Int) {
	unlocked = Z()
	payer := tx.Payer()
	if tx.HasTopLevelAnchorMsg() {
		f := tx.FeeOf(s.Ent.P.Denom)
		l := s.LockedOf(payer)
		if l.Sign() > 0 {
			u := minI(f, l)
			s.Ent.Locked[payer] = new(big.Int).Sub(l, u)
			s.addM(s.Ent.Spent, payer, u)
			s.move(ModEnt, payer, s.Ent.P.Denom, u)
			unlocked = u
		}
	}
	from := payer
	if tx.FeeGranter != "" {
		from = tx.FeeGranter
	}
	for d := range tx.Fee {
		s.move(from, ModFee, d, tx.FeeOf(d))
	}
	return
}

// ExecMsgs applies the messages atomically; on failure the state is left untouched.
func (s *State) ExecMsgs(env Env, tx Tx) *Fail {
	s.LastRelease, s.LastRefund = nil, nil
	c := s.Clone()
	idx := 0
	for _, m := range tx.Msgs {
		if f := c.execMsg(env, m, m.From, &idx); f != nil {
			return f
		}
	}
	*s = *c
	return nil
}

func (s *State) execMsg(env Env, m Msg, actor string, idx *int) *Fail {
	fail := func(r string) *Fail { return &Fail{Idx: *idx, Kind: m.Kind, Reason: r} }
	var why string
	switch m.Kind {
	case AuthzExec:
		if len(m.Inner) == 0 {
			return fail("empty_exec")
		}
		for _, in := range m.Inner {
			if in.From != m.From && !s.Grants[in.From+"|"+m.From+"|"+in.URLOrKind()] {
				return &Fail{Idx: *idx, Kind: in.Kind, Reason: "no_grant"}
			}
			if f := s.execMsg(env, in, in.From, idx); f != nil {
				return f
			}
		}
		return nil
	case AuthzGrant:
		if m.From == m.To {
			why = "self_grant"
		} else {
			s.Grants[m.From+"|"+m.To+"|"+m.URL] = true
		}
	case FeeGrant:
		if s.FeeAl[m.From+"|"+m.To] {
			why = "allowance_exists"
		} else {
			s.FeeAl[m.From+"|"+m.To] = true
		}
	case BankSend:
		why = s.send(env, m.From, m.To, m.Den, m.AmtI())
	case EntRaise:
		why = s.entRaise(m)
	case EntDecide:
		why = s.entDecide(m)
	case EntWhitelist:
		why = s.entWhitelist(m)
	case WrkReg, BcnReg:
		why = s.anchReg(m)
	case WrkRec, BcnRec:
		why = s.anchRec(m)
	case WrkPur, BcnPur:
		why = s.anchPur(m)
	case StrCreate:
		why = s.strCreate(env, m)
	case StrClaim:
		why = s.strClaim(m)
	case StrTopUp:
		why = s.strTopUp(env, m)
	case StrUpdate:
		why = s.strUpdate(m)
	case StrCancel:
		why = s.strCancel(m)
	case EntParams, WrkParams, BcnParams, StrParams:
		// parameter updates are entitled to the governance authority only
		if m.From != ModGov {
			why = "not_authority"
		} else {
			why = s.SetParams(m.Kind, m.Params)
		}
	default:
		panic("model: unknown message kind " + m.Kind)
	}
	*idx++
	if why != "" {
		*idx--
		return fail(why)
	}
	return nil
}

// URLOrKind: grants are keyed by the message kind in the model.
func (m Msg) URLOrKind() string { return m.Kind }

func (s *State) send(env Env, from, to, denom string, amt *big.Int) string {
	if amt.Sign() <= 0 {
		return "amount_not_positive"
	}
	if Blocked(to) {
		return "blocked_recipient"
	}
	if s.Spendable(env, from, denom).Cmp(amt) < 0 {
		return "insufficient_funds"
	}
	s.move(from, to, denom, amt)
	return ""
}

// ---- enterprise (A.1) ----

func (s *State) entRaise(m Msg) string {
	if !s.Ent.Whitelist[m.From] {
		return "not_whitelisted"
	}
	if m.Den != s.Ent.P.Denom {
		return "wrong_denom"
	}
	if m.AmtI().Sign() <= 0 {
		return "amount_not_positive"
	}
	id := s.Ent.NextID
	s.Ent.NextID++
	s.Ent.Orders[id] = &Order{ID: id, Purchaser: m.From, Amount: m.AmtI(), Denom: m.Den, Status: StRaised, Raised: s.NowS()}
	return ""
}

func (s *State) entDecide(m Msg) string {
	if !s.IsSigner(m.From) {
		return "not_signer"
	}
	o, ok := s.Ent.Orders[m.ID]
	if !ok {
		return "no_such_order"
	}
	if m.N != StAccepted && m.N != StRejected {
		return "bad_decision"
	}
	if o.Status != StRaised {
		return "not_raised"
	}
	for _, d := range o.Decisions {
		if d.Signer == m.From {
			return "already_decided"
		}
	}
	o.Decisions = append(o.Decisions, Decision{Signer: m.From, Dec: int(m.N), Time: s.NowS()})
	return ""
}

func (s *State) entWhitelist(m Msg) string {
	if !s.IsSigner(m.From) {
		return "not_signer"
	}
	switch m.N {
	case 1:
		if s.Ent.Whitelist[m.To] {
			return "already_whitelisted"
		}
		s.Ent.Whitelist[m.To] = true
	case 2:
		if !s.Ent.Whitelist[m.To] {
			return "not_in_whitelist"
		}
		delete(s.Ent.Whitelist, m.To)
	default:
		return "bad_action"
	}
	return ""
}

// NewProbeState: an empty state, enough to ask a message builder what shape its message has.
func NewProbeState() *State {
	return &State{Wrk: Anchor{Ents: map[uint64]*Entity{}}, Bcn: Anchor{Ents: map[uint64]*Entity{}}, Str: map[string]*Stream{}}
}

// ---- anchoring (A.3) ----

func (s *State) anch(kind string) *Anchor {
	if strings.HasPrefix(kind, "wrk.") {
		return &s.Wrk
	}
	return &s.Bcn
}

func (s *State) anchReg(m Msg) string {
	// size and presence rules of the registration fields, in bytes (moniker 1..64, name <= 128 - for a
	// BEACON also non-empty -, genesis hash <= 66)
	if n := len(m.str(0)); n == 0 || n > 64 {
		return "invalid_field"
	}
	if len(m.str(1)) > 128 || (m.Kind == BcnReg && len(m.str(1)) == 0) {
		return "invalid_field"
	}
	if m.Kind == WrkReg && len(m.str(2)) > 66 {
		return "invalid_field"
	}
	a := s.anch(m.Kind)
	id := a.NextID
	a.NextID++
	ident := []string{m.str(0), m.str(1)}
	if m.Kind == WrkReg {
		ident = append(ident, m.str(2), m.str(3))
	}
	a.Ents[id] = &Entity{ID: id, Owner: m.From, Ident: ident, RegTime: s.NowS(), Limit: a.P.Default, InState: map[uint64]Rec{}, Ever: map[uint64]Rec{}}
	return ""
}

func (s *State) anchRec(m Msg) string {
	// size and presence rules of the recorded fields (every hash <= 66 bytes, the first one non-empty; height
	// and submit time positive)
	for i, h := range m.S {
		if len(h) > 66 || (i == 0 && len(h) == 0) {
			return "invalid_field"
		}
	}
	if len(m.S) == 0 || (m.Kind == WrkRec && m.H == 0) || (m.Kind == BcnRec && m.T == 0) || m.ID == 0 {
		return "invalid_field"
	}
	a := s.anch(m.Kind)
	e, ok := a.Ents[m.ID]
	if !ok {
		return "no_such_entity"
	}
	if e.Owner != m.From {
		return "not_owner"
	}
	var r Rec
	if m.Kind == WrkRec {
		if m.H <= e.Last {
			return "height_not_new"
		}
		r = Rec{H: m.H, S: []string{m.str(0), m.str(1), m.str(2), m.str(3), m.str(4)}, At: s.NowS()}
	} else {
		r = Rec{H: e.Last + 1, S: []string{m.str(0)}, T: m.T}
	}
	e.InState[r.H] = r
	e.Ever[r.H] = r
	e.Last = r.H
	if uint64(len(e.InState)) > e.Limit {
		low := ^uint64(0)
		for h := range e.InState {
			if h < low {
				low = h
			}
		}
		delete(e.InState, low)
	}
	return ""
}

func (s *State) anchPur(m Msg) string {
	a := s.anch(m.Kind)
	e, ok := a.Ents[m.ID]
	if !ok {
		return "no_such_entity"
	}
	if e.Owner != m.From {
		return "not_owner"
	}
	if m.N == 0 {
		return "zero_slots"
	}
	if new(big.Int).Add(U(e.Limit), U(m.N)).Cmp(U(a.P.Max)) > 0 {
		return "over_max"
	}
	e.Limit += m.N
	return ""
}

// Purchasable is the reported remaining capacity max(0, max - limit).
func (a *Anchor) Purchasable(e *Entity) uint64 {
	if e.Limit >= a.P.Max {
		return 0
	}
	return a.P.Max - e.Limit
}

// AnchorFee: fee the module charges for one message under the params in force (A.5).
func (s *State) AnchorFee(m Msg) (*big.Int, bool) {
	if !IsAnchorKind(m.Kind) {
		return Z(), false
	}
	a := s.anch(m.Kind)
	switch m.Kind {
	case WrkReg, BcnReg:
		return U(a.P.FeeReg), true
	case WrkRec, BcnRec:
		return U(a.P.FeeRec), true
	default:
		return new(big.Int).Mul(U(a.P.FeePur), U(m.N)), true
	}
}

// ---- streams (A.4) ----

func skey(recv, sender string) string { return recv + "|" + sender }

func (s *State) FeeRat() *big.Rat { return s.feeRat() }

func (s *State) feeRat() *big.Rat {
	r, ok := new(big.Rat).SetString(s.FeeNum)
	if !ok {
		panic("model: bad fee rate " + s.FeeNum)
	}
	return r
}

// ReleaseAmount: what a release at the current block time pays out in total (before the fee split).
func (s *State) ReleaseAmount(st *Stream) *big.Int {
	now := cpI(s.Now)
	if now.Cmp(st.Z) >= 0 {
		return cpI(st.D)
	}
	el := new(big.Int).Sub(now, st.L)
	secs := new(big.Int).Div(el, nsPerS) // el >= 0 here in every reachable state; Div is Euclidean
	if el.Sign() < 0 {
		secs = Z()
	}
	x := new(big.Int).Mul(secs, I(st.R))
	return minI(st.D, x)
}

// FeeSplit: (to receiver, to fee collector) for a released amount x.
func (s *State) FeeSplit(x *big.Int) (*big.Int, *big.Int) {
	r := s.feeRat()
	f := new(big.Rat).Mul(new(big.Rat).SetInt(x), r)
	fee := new(big.Int).Div(f.Num(), f.Denom())
	return new(big.Int).Sub(x, fee), fee
}

func (s *State) release(st *Stream) {
	x := s.ReleaseAmount(st)
	s.LastRelease = cpI(x)
	toRecv, fee := s.FeeSplit(x)
	s.move(ModStr, st.Recv, st.Denom, toRecv)
	s.move(ModStr, ModFee, st.Denom, fee)
	st.Paid.Add(st.Paid, toRecv)
	st.Fees.Add(st.Fees, fee)
	st.D = new(big.Int).Sub(st.D, x)
	st.L = cpI(s.Now)
}

func durNs(dep *big.Int, rate int64) *big.Int {
	secs := new(big.Int).Div(dep, I(rate))
	return secs.Mul(secs, nsPerS)
}

func (s *State) strCreate(env Env, m Msg) string {
	if m.From == m.To {
		return "same_party"
	}
	if Blocked(m.To) {
		return "blocked_recipient"
	}
	if _, ok := s.Str[skey(m.To, m.From)]; ok {
		return "stream_exists"
	}
	d := m.AmtI()
	if d.Sign() <= 0 {
		return "deposit_not_positive"
	}
	if m.Rate < 1 {
		return "rate_not_positive"
	}
	if new(big.Int).Div(d, I(m.Rate)).Cmp(I(60)) < 0 {
		return "too_short"
	}
	if s.Spendable(env, m.From, m.Den).Cmp(d) < 0 {
		return "insufficient_funds"
	}
	st := &Stream{Recv: m.To, Sender: m.From, Denom: m.Den, D: cpI(d), R: m.Rate, L: cpI(s.Now),
		Z: new(big.Int).Add(cpI(s.Now), durNs(d, m.Rate)), Deposited: cpI(d), Paid: Z(), Fees: Z(), Refunded: Z()}
	s.Str[skey(m.To, m.From)] = st
	s.move(m.From, ModStr, m.Den, d)
	return ""
}

func (s *State) strClaim(m Msg) string {
	// the message names (receiver = From, sender = To)
	st, ok := s.Str[skey(m.From, m.To)]
	if !ok {
		return "no_such_stream"
	}
	if st.D.Sign() <= 0 {
		return "empty_stream"
	}
	s.release(st)
	return ""
}

func (s *State) strTopUp(env Env, m Msg) string {
	st, ok := s.Str[skey(m.To, m.From)]
	if !ok {
		return "no_such_stream"
	}
	t := m.AmtI()
	if t.Sign() <= 0 {
		return "deposit_not_positive"
	}
	if m.Den != st.Denom {
		return "wrong_denom"
	}
	if s.Spendable(env, m.From, m.Den).Cmp(t) < 0 {
		return "insufficient_funds"
	}
	now := cpI(s.Now)
	if now.Cmp(st.Z) >= 0 {
		if st.D.Sign() > 0 {
			s.release(st)
		}
		st.L = cpI(now)
		st.Z = new(big.Int).Add(now, durNs(t, st.R))
	} else {
		st.Z = new(big.Int).Add(st.Z, durNs(t, st.R))
	}
	st.D = new(big.Int).Add(st.D, t)
	st.Deposited.Add(st.Deposited, t)
	s.move(m.From, ModStr, m.Den, t)
	return ""
}

func (s *State) strUpdate(m Msg) string {
	st, ok := s.Str[skey(m.To, m.From)]
	if !ok {
		return "no_such_stream"
	}
	if m.Rate < 1 {
		return "rate_not_positive"
	}
	if st.D.Sign() > 0 {
		s.release(st)
	}
	st.Z = new(big.Int).Add(cpI(s.Now), durNs(st.D, m.Rate))
	st.R = m.Rate
	return ""
}

func (s *State) strCancel(m Msg) string {
	st, ok := s.Str[skey(m.To, m.From)]
	if !ok {
		return "no_such_stream"
	}
	if st.D.Sign() > 0 {
		s.release(st)
	}
	s.move(ModStr, st.Sender, st.Denom, st.D)
	s.LastRefund = cpI(st.D)
	st.Refunded.Add(st.Refunded, st.D)
	st.D = Z()
	delete(s.Str, skey(m.To, m.From))
	s.Closed = append(s.Closed, st)
	return ""
}

// StreamInvariant: D >= r * floor((Z - L)/1s) for Z > L (A.4), and the ledger identity.
func (s *State) StreamInvariant(st *Stream) string {
	// an empty stream sustains nothing and cannot be drained: the rule is about positive deposits
	if st.D.Sign() > 0 && st.Z.Cmp(st.L) > 0 {
		secs := new(big.Int).Div(new(big.Int).Sub(st.Z, st.L), nsPerS)
		need := secs.Mul(secs, I(st.R))
		if st.D.Cmp(need) < 0 {
			return fmt.Sprintf("deposit %s cannot sustain rate %d from last release to the advertised zero time (needs %s)", st.D, st.R, need)
		}
	}
	sum := new(big.Int).Add(st.Paid, st.Fees)
	sum.Add(sum, st.Refunded).Add(sum, st.D)
	if sum.Cmp(st.Deposited) != 0 {
		return fmt.Sprintf("ledger: deposited %s != paid %s + fees %s + refunded %s + remaining %s", st.Deposited, st.Paid, st.Fees, st.Refunded, st.D)
	}
	return ""
}
